#!/usr/bin/env python3
# validates MANIFEST.json and evidence/*.json against the schemas (run with python3-vt)
import json, sys, glob, jsonschema
ok = True
m = json.load(open('/verif/MANIFEST.json'))
jsonschema.validate(m, json.load(open('/root/.vp/MANIFEST.schema.json')))
print('MANIFEST ok:', len(m['checks']), 'checks,', len(m.get('not_applicable', [])), 'n/a')
es = json.load(open('/root/.vp/EVIDENCE.schema.json'))
for f in sorted(glob.glob('/verif/evidence/*.json')):
    try:
        e = json.load(open(f)); jsonschema.validate(e, es)
        c = e['coverage']
        print(f.split('/')[-1], 'ok', e['tier'], 'paths', c.get('evaluations'), 'oblig', c.get('distinct_nontrivial'), 'viol', e.get('violations'), 'problems', len(c.get('problems') or []), 'wall %.0fs' % e['wall_s'])
    except Exception as ex:
        ok = False; print(f, 'INVALID', str(ex)[:300])
ids = {json.loads(l)['id'] for l in open('/verif/properties.jsonl')}
claimed = {c['property_id'] for c in m['checks']}
na = {c['property_id'] for c in m.get('not_applicable', [])}
if claimed | na != ids or claimed & na:
    ok = False; print('property coverage mismatch', ids - claimed - na, claimed & na)
sys.exit(0 if ok else 1)
