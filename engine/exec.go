package main

import (
	"os"
	"fmt"
	"go/constant"
	"go/token"
	"go/types"
	"math"
	"strings"

	"golang.org/x/tools/go/ssa"
)

type unsupported struct{ msg string }

func unsup(format string, a ...interface{}) { panic(unsupported{fmt.Sprintf(format, a...)}) }

// ---------------------------------------------------------------------------
// Slots

func (c *Ctx) slotMap(fn *ssa.Function) map[ssa.Value]int {
	if m, ok := c.slots[fn]; ok {
		return m
	}
	m := map[ssa.Value]int{}
	n := 0
	for _, p := range fn.Params {
		m[p] = n
		n++
	}
	for _, fv := range fn.FreeVars {
		m[fv] = n
		n++
	}
	for _, b := range fn.Blocks {
		for _, ins := range b.Instrs {
			if v, ok := ins.(ssa.Value); ok {
				m[v] = n
				n++
			}
		}
	}
	c.slots[fn] = m
	return m
}

func (c *Ctx) pushFrame(st *State, fn *ssa.Function, args []Value, binds []Value, retSlot int) *Frame {
	if fn.Blocks == nil {
		unsup("call of function without body: %s", fn.String())
	}
	if len(st.frames) > 200 {
		unsup("call depth > 200 at %s", fn.String())
	}
	c.funcs[fn]++
	sm := c.slotMap(fn)
	f := &Frame{fn: fn, env: make([]Value, len(sm)), block: fn.Blocks[0], retSlot: retSlot}
	if len(args) != len(fn.Params) {
		unsup("arity mismatch calling %s: %d args for %d params", fn.String(), len(args), len(fn.Params))
	}
	for i, p := range fn.Params {
		f.env[sm[p]] = args[i]
	}
	for i, fv := range fn.FreeVars {
		f.env[sm[fv]] = binds[i]
	}
	st.frames = append(st.frames, f)
	return f
}

// ---------------------------------------------------------------------------
// Operand evaluation

func (c *Ctx) constVal(k *ssa.Const) Value {
	t := k.Type()
	if k.Value == nil {
		return c.tb.zero(t)
	}
	switch u := t.Underlying().(type) {
	case *types.Basic:
		switch {
		case u.Info()&types.IsBoolean != 0:
			return c.tb.Bool(constant.BoolVal(k.Value))
		case u.Info()&types.IsString != 0:
			return &StrV{Conc: true, S: constant.StringVal(k.Value)}
		case u.Info()&types.IsInteger != 0:
			w := typeWidth(t)
			if isSigned(t) {
				return c.tb.Const(w, uint64(k.Int64()))
			}
			return c.tb.Const(w, k.Uint64())
		case u.Info()&types.IsFloat != 0:
			f := k.Float64()
			if typeWidth(t) == 32 {
				return c.tb.Const(32, uint64(math.Float32bits(float32(f))))
			}
			return c.tb.Const(64, math.Float64bits(f))
		}
	}
	unsup("constant of type %v", t)
	return nil
}

func (c *Ctx) globalPtr(st *State, g *ssa.Global) Ptr {
	id, ok := c.globals[g]
	if !ok {
		c.nextObj++
		id = c.nextObj
		c.globals[g] = id
	}
	if _, ok := st.heap[id]; !ok {
		st.heap[id] = c.tb.zero(g.Type().(*types.Pointer).Elem())
		c.ensureInit(st, g.Pkg)
	}
	return Ptr{Obj: id}
}

func (c *Ctx) get(st *State, f *Frame, v ssa.Value) Value {
	switch x := v.(type) {
	case *ssa.Const:
		return c.constVal(x)
	case *ssa.Global:
		return c.globalPtr(st, x)
	case *ssa.Function:
		return &FuncV{Fn: x}
	case *ssa.Builtin:
		return &FuncV{Bi: x}
	}
	i, ok := c.slotMap(f.fn)[v]
	if !ok {
		unsup("unknown value %s in %s", v.Name(), f.fn)
	}
	return f.env[i]
}

func (c *Ctx) set(f *Frame, v ssa.Value, val Value) {
	f.env[c.slotMap(f.fn)[v]] = val
}

func (c *Ctx) term(st *State, f *Frame, v ssa.Value) *Term {
	x := c.get(st, f, v)
	t, ok := x.(*Term)
	if !ok {
		unsup("expected scalar for %s (%T) in %s", v.Name(), x, f.fn)
	}
	if st.subst != nil {
		if k, ok := st.subst[t.ID]; ok {
			return k
		}
	}
	return t
}

// ---------------------------------------------------------------------------
// Memory

func (c *Ctx) navigate(v Value, path []Sel) Value {
	for _, s := range path {
		switch x := v.(type) {
		case *StructV:
			v = x.F[s.F]
		case *SymArr:
			v = x.Read(c.tb, s.I)
		case *ValArr:
			if !s.I.IsConst() {
				unsup("symbolic index into array of non-scalars")
			}
			if s.I.Val >= uint64(len(x.E)) {
				unsup("internal: ValArr index %d out of %d", s.I.Val, len(x.E))
			}
			v = x.E[s.I.Val]
		default:
			unsup("navigate through %T", v)
		}
	}
	return v
}

func (c *Ctx) update(v Value, path []Sel, nv Value) Value {
	if len(path) == 0 {
		return nv
	}
	s := path[0]
	switch x := v.(type) {
	case *StructV:
		n := &StructV{F: append([]Value(nil), x.F...)}
		n.F[s.F] = c.update(x.F[s.F], path[1:], nv)
		return n
	case *SymArr:
		if len(path) != 1 {
			unsup("path below scalar array element")
		}
		t, ok := nv.(*Term)
		if !ok {
			unsup("store of %T into scalar array", nv)
		}
		return x.Write(c.tb, s.I, t)
	case *ValArr:
		if !s.I.IsConst() {
			unsup("symbolic index store into array of non-scalars")
		}
		n := &ValArr{E: append([]Value(nil), x.E...)}
		n.E[s.I.Val] = c.update(x.E[s.I.Val], path[1:], nv)
		return n
	}
	unsup("update through %T", v)
	return nil
}

func (c *Ctx) load(st *State, p Ptr) Value {
	root, ok := st.heap[p.Obj]
	if !ok {
		unsup("load from unknown object %d", p.Obj)
	}
	return c.navigate(root, p.Path)
}

func (c *Ctx) store(st *State, p Ptr, v Value) {
	root, ok := st.heap[p.Obj]
	if !ok {
		unsup("store to unknown object %d", p.Obj)
	}
	st.heap[p.Obj] = c.update(root, p.Path, v)
}

// ---------------------------------------------------------------------------
// Panics

func (c *Ctx) runtimePanic(st *State, msg string) {
	var val Value
	if c.errStrT != nil {
		obj := c.newObj(st, &StructV{F: []Value{&StrV{Conc: true, S: "runtime error: " + msg}}})
		val = &IfaceV{T: c.errStrT, V: Ptr{Obj: obj}}
	} else {
		val = &IfaceV{T: types.Typ[types.String], V: &StrV{Conc: true, S: msg}}
	}
	c.startPanic(st, val, "runtime error: "+msg)
}

func (c *Ctx) startPanic(st *State, val Value, msg string) {
	st.panics = append(st.panics, &panicRec{val: val, msg: msg, depth: len(st.frames) - 1})
	st.top().unwinding = true
}

func (c *Ctx) describe(v Value) string {
	switch x := v.(type) {
	case *IfaceV:
		if x.T == nil {
			return "nil"
		}
		return fmt.Sprintf("%v(%s)", x.T, c.describe(x.V))
	case *StrV:
		if x.Conc {
			return fmt.Sprintf("%q", x.S)
		}
		return "<string>"
	case *Term:
		return c.tb.Show(x)
	case Ptr:
		return fmt.Sprintf("&obj%d%v", x.Obj, x.Path)
	}
	return fmt.Sprintf("%T", v)
}

// forkPanic: continue only where ok holds; the ¬ok side panics with msg.
// Returns false if the ok side is infeasible (current state has then been turned into the panicking one).
func (c *Ctx) forkPanic(st *State, ok *Term, msg string) bool {
	if ok.IsTrue() {
		return true
	}
	bad := c.tb.Not(ok)
	if ok.IsFalse() {
		c.runtimePanic(st, msg)
		return false
	}
	fb, mb, ub := c.feasible(st, bad)
	if !fb {
		// ok is implied
		return true
	}
	fo, mo, uo := c.feasible(st, ok)
	if !fo {
		st.addPC(c, bad)
		c.runtimePanic(st, msg)
		return false
	}
	cl := st.clone()
	cl.addPC(c, bad)
	if mb != nil {
		cl.model = mb
	}
	cl.pcUnsure = cl.pcUnsure || ub
	c.runtimePanic(cl, msg)
	c.work = append(c.work, cl)
	st.addPC(c, ok)
	if mo != nil {
		st.model = mo
	}
	st.pcUnsure = st.pcUnsure || uo
	return true
}

// ---------------------------------------------------------------------------
// Main loop

func (c *Ctx) finish(st *State, r *PathResult) {
	r.Steps = st.steps
	r.Proto = st.proto
	r.PC = st.pc
	r.Reach = st.reach
	r.Notes = st.notes
	r.Case = c.cfg.CaseName
	st.done = r
}

// Run explores all paths from the initial state.
func (c *Ctx) Run(init *State) []*PathResult {
	c.work = append(c.work, init)
	for len(c.work) > 0 {
		st := c.work[len(c.work)-1]
		c.work = c.work[:len(c.work)-1]
		c.runPath(st, 0)
		if st.done != nil {
			c.paths++
			if c.cfg.Verbose && c.paths%50 == 0 {
				fmt.Printf("  progress: paths=%d work=%d last=%s steps=%d queries=%d\n", c.paths, len(c.work), st.done.Outcome, st.steps, c.solver.Local.Queries)
			}
			if st.done.Outcome != OutInfeasible {
				c.results = append(c.results, st.done)
			}
			if c.needCase != nil {
				return c.results
			}
			if c.cfg.StopAtFirst && (st.done.Outcome == OutAssertFail || st.done.Outcome == OutPanic) {
				return c.results
			}
			if c.cfg.MaxPaths > 0 && c.paths >= c.cfg.MaxPaths {
				c.results = append(c.results, &PathResult{Outcome: OutStepLimit, Msg: "max paths reached"})
				return c.results
			}
		}
	}
	return c.results
}

// runPath steps st until it finishes or (nested mode) the frame stack drops to minDepth.
func (c *Ctx) runPath(st *State, minDepth int) {
	defer func() {
		if r := recover(); r != nil {
			if u, ok := r.(unsupported); ok {
				where := ""
				if len(st.frames) > 0 {
					f := st.top()
					where = f.fn.String()
					if f.block != nil && f.ip < len(f.block.Instrs) {
						where += ": " + c.prog.Fset.Position(f.block.Instrs[f.ip].Pos()).String()
					}
				}
				c.finish(st, &PathResult{Outcome: OutUnsupported, Msg: u.msg + " @ " + where})
				return
			}
			panic(r)
		}
	}()
	for st.done == nil {
		if len(st.frames) <= minDepth && len(st.panics) == 0 {
			if minDepth == 0 {
				c.finish(st, &PathResult{Outcome: OutDone})
			}
			return
		}
		if st.steps > c.cfg.MaxSteps {
			c.finish(st, &PathResult{Outcome: OutStepLimit, Msg: "max steps"})
			return
		}
		// panic unwinding
		if n := len(st.panics); n > 0 {
			p := st.panics[n-1]
			if p.depth == len(st.frames)-1 && st.top().unwinding {
				c.unwindStep(st, p, minDepth)
				continue
			}
		}
		c.step(st)
	}
}

func (c *Ctx) unwindStep(st *State, p *panicRec, minDepth int) {
	f := st.top()
	if len(f.defers) > 0 {
		d := f.defers[len(f.defers)-1]
		f.defers = f.defers[:len(f.defers)-1]
		c.invoke(st, d.fn, d.args, -1, func(nf *Frame) { nf.deferCall = true })
		return
	}
	if f.recovered {
		// resume at Recover block or return zero values
		st.panics = st.panics[:len(st.panics)-1]
		f.unwinding = false
		f.recovered = false
		if f.fn.Recover != nil {
			f.prev = f.block
			f.block = f.fn.Recover
			f.ip = 0
			return
		}
		var res Value
		rs := f.fn.Signature.Results()
		if rs.Len() == 1 {
			res = c.tb.zero(rs.At(0).Type())
		} else if rs.Len() > 1 {
			res = c.tb.zero(rs)
		}
		c.popFrame(st, res)
		return
	}
	// frame fully unwound
	if f.goRoot || len(st.frames) == 1 || len(st.frames)-1 <= minDepth {
		kind := "panic reached harness boundary"
		if f.goRoot {
			kind = "un-recovered panic in goroutine " + f.fn.String()
		}
		c.finishPanic(st, kind+": "+p.msg)
		return
	}
	c.dropFrame(st)
	// superseded panics: any older panic whose unwound frame index is now beyond the stack
	p.depth = len(st.frames) - 1
	nf := st.top()
	// a panic raised inside a deferred call supersedes the panic its parent was unwinding under
	kept := st.panics[:0]
	for _, q := range st.panics {
		if q == p || q.depth < p.depth {
			kept = append(kept, q)
		}
	}
	st.panics = kept
	nf.recovered = false
	nf.unwinding = true
}

func (c *Ctx) finishPanic(st *State, msg string) {
	r := &PathResult{Outcome: OutPanic, Msg: msg}
	m, sr := c.fullModel(st, nil)
	if sr == Unsat {
		c.finish(st, &PathResult{Outcome: OutInfeasible})
		return
	}
	if sr == Unknown {
		r.Outcome = OutSolverUnknown
		r.Msg = "panic path feasibility unknown: " + msg
	}
	r.Model = m
	r.Inputs = c.inputsFromModel(st, m)
	c.finish(st, r)
}

func (c *Ctx) dropFrame(st *State) {
	f := st.top()
	for _, o := range f.locals {
		delete(st.heap, o)
	}
	st.frames = st.frames[:len(st.frames)-1]
}

func (c *Ctx) popFrame(st *State, res Value) {
	f := st.top()
	c.dropFrame(st)
	if len(st.frames) == 0 {
		return
	}
	caller := st.top()
	if f.deferCall {
		// return into RunDefers / unwinding of caller: nothing to store
		return
	}
	if f.retSlot >= 0 {
		caller.env[f.retSlot] = res
	}
	caller.ip++
}

// invoke pushes a frame for fv (or runs an intrinsic/builtin). retSlot<0 discards the result.
// For non-frame (intrinsic) completions of ordinary calls the caller's ip is advanced by the caller of invoke.
func (c *Ctx) invoke(st *State, fv *FuncV, args []Value, retSlot int, mod func(*Frame)) (pushed bool, res Value) {
	if fv == nil {
		c.runtimePanic(st, "invalid memory address or nil pointer dereference (nil func)")
		return true, nil
	}
	if fv.Bi != nil {
		unsup("builtin %s via invoke", fv.Bi.Name())
	}
	if h, ok := c.intrinsic(st, fv.Fn, args); ok {
		return h.pushed, h.res
	}
	f := c.pushFrame(st, fv.Fn, args, fv.Binds, retSlot)
	if mod != nil {
		mod(f)
	}
	return true, nil
}

type intrRes struct {
	pushed bool
	res    Value
}

func (c *Ctx) step(st *State) {
	f := st.top()
	if f.ip >= len(f.block.Instrs) {
		unsup("fell off block")
	}
	ins := f.block.Instrs[f.ip]
	st.steps++
	if c.cfg.Verbose && st.steps%2000000 == 0 {
		fmt.Printf("  steps=%dM depth=%d in %s\n", st.steps/1000000, len(st.frames), f.fn.String())
	}
	if c.cfg.Verbose && false {
		fmt.Printf("  [%d] %s: %s\n", len(st.frames), f.fn.Name(), ins)
	}
	switch x := ins.(type) {
	case *ssa.DebugRef:
		f.ip++
	case *ssa.Alloc:
		v := c.tb.zero(x.Type().(*types.Pointer).Elem())
		id := c.newObj(st, v)
		if !x.Heap {
			f.locals = append(f.locals, id)
		}
		c.set(f, x, Ptr{Obj: id})
		f.ip++
	case *ssa.Phi:
		// evaluate all phis of the block simultaneously
		idx := -1
		for i, p := range f.block.Preds {
			if p == f.prev {
				idx = i
				break
			}
		}
		if idx < 0 {
			unsup("phi without predecessor")
		}
		var phis []*ssa.Phi
		var vals []Value
		for i := f.ip; i < len(f.block.Instrs); i++ {
			p, ok := f.block.Instrs[i].(*ssa.Phi)
			if !ok {
				break
			}
			phis = append(phis, p)
			vals = append(vals, c.get(st, f, p.Edges[idx]))
		}
		for i, p := range phis {
			c.set(f, p, vals[i])
		}
		f.ip += len(phis)
	case *ssa.BinOp:
		c.set(f, x, c.binop(st, x.Op, c.get(st, f, x.X), c.get(st, f, x.Y), x.X.Type(), x.Y.Type()))
		if st.retry {
			st.retry = false
		} else if st.done == nil && !f.unwinding {
			f.ip++
		}
	case *ssa.UnOp:
		c.unop(st, f, x)
	case *ssa.Convert:
		c.set(f, x, c.convert(st, c.get(st, f, x.X), x.X.Type(), x.Type()))
		f.ip++
	case *ssa.ChangeType:
		c.set(f, x, c.get(st, f, x.X))
		f.ip++
	case *ssa.ChangeInterface:
		c.set(f, x, c.get(st, f, x.X))
		f.ip++
	case *ssa.MakeInterface:
		c.set(f, x, &IfaceV{T: x.X.Type(), V: c.get(st, f, x.X)})
		f.ip++
	case *ssa.MakeClosure:
		binds := make([]Value, len(x.Bindings))
		for i, b := range x.Bindings {
			binds[i] = c.get(st, f, b)
		}
		c.set(f, x, &FuncV{Fn: x.Fn.(*ssa.Function), Binds: binds})
		f.ip++
	case *ssa.MakeMap:
		id := c.newObj(st, &MapObj{M: map[interface{}]Value{}})
		c.set(f, x, MapV{Obj: id})
		f.ip++
	case *ssa.MakeSlice:
		c.makeSlice(st, f, x)
	case *ssa.FieldAddr:
		p := c.get(st, f, x.X).(Ptr)
		if p.IsNil() {
			c.runtimePanic(st, "invalid memory address or nil pointer dereference")
			return
		}
		c.set(f, x, p.Child(Sel{F: x.Field}))
		f.ip++
	case *ssa.Field:
		s := c.get(st, f, x.X).(*StructV)
		c.set(f, x, s.F[x.Field])
		f.ip++
	case *ssa.IndexAddr:
		c.indexAddr(st, f, x)
	case *ssa.Index:
		c.index(st, f, x)
	case *ssa.Lookup:
		c.lookup(st, f, x)
	case *ssa.MapUpdate:
		m := c.get(st, f, x.Map).(MapV)
		if m.Obj == 0 {
			c.runtimePanic(st, "assignment to entry in nil map")
			return
		}
		k := c.mapKey(c.get(st, f, x.Key))
		mo := st.heap[m.Obj].(*MapObj)
		st.heap[m.Obj] = mo.set(k, c.get(st, f, x.Value))
		f.ip++
	case *ssa.Slice:
		c.sliceOp(st, f, x)
	case *ssa.Store:
		p := c.get(st, f, x.Addr).(Ptr)
		if p.IsNil() {
			c.runtimePanic(st, "invalid memory address or nil pointer dereference")
			return
		}
		val := c.get(st, f, x.Val)
		if c.cfg.ConcStores && len(p.Path) > 0 {
			if t, ok := val.(*Term); ok && t.W >= 8 && !t.IsConst() {
				val = c.tryConst(st, t)
			}
		}
		c.store(st, p, val)
		f.ip++
	case *ssa.Extract:
		t := c.get(st, f, x.Tuple).(TupleV)
		c.set(f, x, t[x.Index])
		f.ip++
	case *ssa.TypeAssert:
		c.typeAssert(st, f, x)
	case *ssa.Range:
		c.rangeOp(st, f, x)
	case *ssa.Next:
		c.nextOp(st, f, x)
	case *ssa.Call:
		c.call(st, f, x.Common(), x)
	case *ssa.Go:
		c.call(st, f, x.Common(), x)
	case *ssa.Defer:
		fv, args := c.callee(st, f, x.Common())
		if st.done != nil || f.unwinding {
			return
		}
		f.defers = append(f.defers, deferred{fv, args})
		f.ip++
	case *ssa.RunDefers:
		if len(f.defers) > 0 {
			d := f.defers[len(f.defers)-1]
			f.defers = f.defers[:len(f.defers)-1]
			c.invokeDeferred(st, d)
			return
		}
		f.ip++
	case *ssa.Panic:
		v := c.get(st, f, x.X)
		c.startPanic(st, v, "panic: "+c.describe(v))
	case *ssa.Return:
		var res Value
		switch len(x.Results) {
		case 0:
		case 1:
			res = c.get(st, f, x.Results[0])
		default:
			tv := make(TupleV, len(x.Results))
			for i, r := range x.Results {
				tv[i] = c.get(st, f, r)
			}
			res = tv
		}
		c.popFrame(st, res)
	case *ssa.Jump:
		c.jump(st, f, f.block.Succs[0], false)
	case *ssa.If:
		c.ifOp(st, f, x)
	case *ssa.SliceToArrayPointer:
		s := c.get(st, f, x.X).(*SliceV)
		n := x.Type().(*types.Pointer).Elem().Underlying().(*types.Array).Len()
		if !c.forkPanic(st, c.tb.Ule(c.tb.Const(64, uint64(n)), s.Len), "slice to array pointer: length too short") {
			return
		}
		if !s.Off.IsConst() || s.Off.Val != 0 {
			unsup("SliceToArrayPointer with non-zero offset")
		}
		c.set(f, x, s.Arr)
		f.ip++
	default:
		unsup("instruction %T: %s", ins, ins)
	}
}

func (c *Ctx) invokeDeferred(st *State, d deferred) {
	if d.fn != nil && d.fn.Bi != nil {
		unsup("deferred builtin")
	}
	pushed, _ := c.invoke(st, d.fn, d.args, -1, func(nf *Frame) { nf.deferCall = true })
	_ = pushed
}

func (c *Ctx) jump(st *State, f *Frame, to *ssa.BasicBlock, symbolic bool) {
	if symbolic {
		if f.visits == nil {
			f.visits = map[int]int{}
		}
		f.visits[to.Index]++
		if f.visits[to.Index] > c.cfg.Unwind {
			c.finish(st, &PathResult{Outcome: OutUnwind, Msg: fmt.Sprintf("unwinding bound %d exceeded at %s block %d", c.cfg.Unwind, f.fn, to.Index)})
			return
		}
	}
	f.prev = f.block
	f.block = to
	f.ip = 0
}

func (c *Ctx) ifOp(st *State, f *Frame, x *ssa.If) {
	cond := c.term(st, f, x.Cond)
	if cond.IsConst() {
		if cond.Val == 1 {
			c.jump(st, f, f.block.Succs[0], false)
		} else {
			c.jump(st, f, f.block.Succs[1], false)
		}
		return
	}
	nc := c.tb.Not(cond)
	// already decided by an identical conjunct of the path condition
	if st.pcSet[cond.ID] {
		c.jump(st, f, f.block.Succs[0], false)
		return
	}
	if st.pcSet[nc.ID] {
		c.jump(st, f, f.block.Succs[1], false)
		return
	}
	ft, mt, ut := c.feasible(st, cond)
	ff, mf, uf := c.feasible(st, nc)
	switch {
	case ft && ff:
		cl := st.clone()
		cf := cl.top()
		cl.addPC(c, nc)
		if mf != nil {
			cl.model = mf
		}
		cl.pcUnsure = cl.pcUnsure || uf
		c.jump(cl, cf, cf.block.Succs[1], true)
		c.work = append(c.work, cl)
		st.addPC(c, cond)
		if mt != nil {
			st.model = mt
		}
		st.pcUnsure = st.pcUnsure || ut
		c.jump(st, f, f.block.Succs[0], true)
	case ft:
		st.addPC(c, cond)
		c.jump(st, f, f.block.Succs[0], true)
	case ff:
		st.addPC(c, nc)
		c.jump(st, f, f.block.Succs[1], true)
	default:
		c.finish(st, &PathResult{Outcome: OutInfeasible})
	}
}

// ---------------------------------------------------------------------------
// Operators

func (c *Ctx) shiftAmount(x, y *Term, ySigned bool) (*Term, *Term) {
	// returns (amount in x's width, overflow condition "y >= width(x)")
	w := x.W
	tb := c.tb
	if y.W == w {
		return y, tb.Ule(tb.Const(w, uint64(w)), y)
	}
	if y.W < w {
		z := tb.Zext(y, w)
		return z, tb.Ule(tb.Const(w, uint64(w)), z)
	}
	ov := tb.Ule(tb.Const(y.W, uint64(w)), y)
	return tb.Extract(y, w-1, 0), ov
}

func (c *Ctx) binop(st *State, op token.Token, xv, yv Value, xt, yt types.Type) Value {
	tb := c.tb
	switch x := xv.(type) {
	case *Term:
		y, ok := yv.(*Term)
		if !ok {
			unsup("binop %v on %T,%T", op, xv, yv)
		}
		if isFloat(xt) {
			return c.floatOp(op, x, y, xt)
		}
		if x.W == 0 {
			switch op {
			case token.EQL:
				return tb.Eq(x, y)
			case token.NEQ:
				return tb.Ne(x, y)
			case token.AND:
				return tb.And(x, y)
			case token.OR:
				return tb.Or(x, y)
			}
			unsup("bool binop %v", op)
		}
		signed := isSigned(xt)
		switch op {
		case token.ADD:
			return tb.Bin(OAdd, x, y)
		case token.SUB:
			return tb.Bin(OSub, x, y)
		case token.MUL:
			return tb.Bin(OMul, x, y)
		case token.QUO, token.REM:
			if !c.forkPanic(st, tb.Ne(y, tb.Const(y.W, 0)), "integer divide by zero") {
				return nil
			}
			if !x.IsConst() || !y.IsConst() {
				if k := c.narrowWidth(st, x, y); k > 0 {
					// both operands provably in [0, 2^k): divide in k bits (same value, much smaller circuit)
					xo, yo := tb.Extract(x, k-1, 0), tb.Extract(y, k-1, 0)
					if op == token.QUO {
						return tb.Zext(tb.Bin(OUDiv, xo, yo), x.W)
					}
					return tb.Zext(tb.Bin(OURem, xo, yo), x.W)
				}
			}
			if signed {
				if op == token.QUO {
					return tb.Bin(OSDiv, x, y)
				}
				return tb.Bin(OSRem, x, y)
			}
			if op == token.QUO {
				return tb.Bin(OUDiv, x, y)
			}
			return tb.Bin(OURem, x, y)
		case token.AND:
			return tb.Bin(OBAnd, x, y)
		case token.OR:
			return tb.Bin(OBOr, x, y)
		case token.XOR:
			return tb.Bin(OBXor, x, y)
		case token.AND_NOT:
			return tb.Bin(OBAnd, x, tb.BNot(y))
		case token.SHL, token.SHR:
			if isSigned(yt) {
				if !c.forkPanic(st, tb.Sle(tb.Const(y.W, 0), y), "negative shift amount") {
					return nil
				}
			}
			y = c.subst(st, y)
			if !y.IsConst() {
				// shift amounts with few feasible values are enumerated (fork) so that later terms carry constant shifts
				if vals := c.fewValues(st, y, 8); vals != nil {
					c.forkValues(st, y, vals)
					st.retry = true
					return nil
				}
			}
			amt, ov := c.shiftAmount(x, y, false)
			if op == token.SHL {
				return tb.Ite(ov, tb.Const(x.W, 0), tb.Bin(OShl, x, amt))
			}
			if signed {
				return tb.Ite(ov, tb.Bin(OAshr, x, tb.Const(x.W, uint64(x.W-1))), tb.Bin(OAshr, x, amt))
			}
			return tb.Ite(ov, tb.Const(x.W, 0), tb.Bin(OLshr, x, amt))
		case token.EQL:
			return tb.Eq(x, y)
		case token.NEQ:
			return tb.Ne(x, y)
		case token.LSS:
			if signed {
				return tb.Slt(x, y)
			}
			return tb.Ult(x, y)
		case token.LEQ:
			if signed {
				return tb.Sle(x, y)
			}
			return tb.Ule(x, y)
		case token.GTR:
			if signed {
				return tb.Slt(y, x)
			}
			return tb.Ult(y, x)
		case token.GEQ:
			if signed {
				return tb.Sle(y, x)
			}
			return tb.Ule(y, x)
		}
		unsup("int binop %v", op)
	case *StrV:
		y := yv.(*StrV)
		switch op {
		case token.ADD:
			return c.strConcat(x, y)
		case token.EQL:
			return c.strEq(x, y)
		case token.NEQ:
			return tb.Not(c.strEq(x, y))
		case token.LSS, token.LEQ, token.GTR, token.GEQ:
			if x.Conc && y.Conc {
				switch op {
				case token.LSS:
					return tb.Bool(x.S < y.S)
				case token.LEQ:
					return tb.Bool(x.S <= y.S)
				case token.GTR:
					return tb.Bool(x.S > y.S)
				default:
					return tb.Bool(x.S >= y.S)
				}
			}
		}
		unsup("string binop %v", op)
	case Ptr:
		y, ok := yv.(Ptr)
		if !ok {
			unsup("pointer compared with %T", yv)
		}
		eq, known := ptrEqual(x, y)
		if !known {
			unsup("pointer comparison with symbolic indices")
		}
		if op == token.EQL {
			return tb.Bool(eq)
		}
		return tb.Bool(!eq)
	case *IfaceV:
		y, ok := yv.(*IfaceV)
		if !ok {
			unsup("interface compared with %T", yv)
		}
		e := c.ifaceEq(x, y)
		if op == token.EQL {
			return e
		}
		return tb.Not(e)
	case *SliceV:
		// comparison with nil only
		y := yv.(*SliceV)
		var e *Term
		if y.Nil && !x.Nil {
			e = tb.False
		} else if x.Nil && !y.Nil {
			e = tb.False
		} else {
			e = tb.Bool(x.Nil && y.Nil)
		}
		if op == token.EQL {
			return e
		}
		return tb.Not(e)
	case MapV:
		y := yv.(MapV)
		e := tb.Bool(x.Obj == y.Obj)
		if op == token.EQL {
			return e
		}
		return tb.Not(e)
	case *FuncV:
		y, _ := yv.(*FuncV)
		e := tb.Bool(x == nil && y == nil)
		if op == token.EQL {
			return e
		}
		return tb.Not(e)
	case *StructV:
		y := yv.(*StructV)
		e := c.valueEq(x, y)
		if op == token.EQL {
			return e
		}
		return tb.Not(e)
	}
	unsup("binop %v on %T", op, xv)
	return nil
}

func (c *Ctx) floatOp(op token.Token, x, y *Term, t types.Type) Value {
	if !x.IsConst() || !y.IsConst() {
		unsup("symbolic float arithmetic")
	}
	var a, b float64
	if x.W == 32 {
		a, b = float64(math.Float32frombits(uint32(x.Val))), float64(math.Float32frombits(uint32(y.Val)))
	} else {
		a, b = math.Float64frombits(x.Val), math.Float64frombits(y.Val)
	}
	mk := func(r float64) Value {
		if x.W == 32 {
			return c.tb.Const(32, uint64(math.Float32bits(float32(r))))
		}
		return c.tb.Const(64, math.Float64bits(r))
	}
	switch op {
	case token.ADD:
		return mk(a + b)
	case token.SUB:
		return mk(a - b)
	case token.MUL:
		return mk(a * b)
	case token.QUO:
		return mk(a / b)
	case token.EQL:
		return c.tb.Bool(a == b)
	case token.NEQ:
		return c.tb.Bool(a != b)
	case token.LSS:
		return c.tb.Bool(a < b)
	case token.LEQ:
		return c.tb.Bool(a <= b)
	case token.GTR:
		return c.tb.Bool(a > b)
	case token.GEQ:
		return c.tb.Bool(a >= b)
	}
	unsup("float op %v", op)
	return nil
}

func (c *Ctx) valueEq(a, b Value) *Term {
	tb := c.tb
	switch x := a.(type) {
	case *Term:
		return tb.Eq(x, b.(*Term))
	case *StrV:
		return c.strEq(x, b.(*StrV))
	case Ptr:
		eq, known := ptrEqual(x, b.(Ptr))
		if !known {
			unsup("pointer equality with symbolic index")
		}
		return tb.Bool(eq)
	case *StructV:
		y := b.(*StructV)
		r := tb.True
		for i := range x.F {
			r = tb.And(r, c.valueEq(x.F[i], y.F[i]))
		}
		return r
	case *IfaceV:
		return c.ifaceEq(x, b.(*IfaceV))
	case MapV:
		return tb.Bool(x.Obj == b.(MapV).Obj)
	}
	unsup("valueEq on %T", a)
	return nil
}

func (c *Ctx) ifaceEq(x, y *IfaceV) *Term {
	if x.T == nil || y.T == nil {
		return c.tb.Bool(x.T == nil && y.T == nil)
	}
	if !types.Identical(x.T, y.T) {
		return c.tb.False
	}
	return c.valueEq(x.V, y.V)
}

func (c *Ctx) strBytes(s *StrV) []*Term {
	if s.Opaque > 0 {
		unsup("bytes of opaque string")
	}
	if !s.Conc {
		return s.Bytes
	}
	bs := make([]*Term, len(s.S))
	for i := 0; i < len(s.S); i++ {
		bs[i] = c.tb.Const(8, uint64(s.S[i]))
	}
	return bs
}

func (c *Ctx) mkStr(bs []*Term) *StrV {
	all := true
	for _, b := range bs {
		if !b.IsConst() {
			all = false
			break
		}
	}
	if all {
		buf := make([]byte, len(bs))
		for i, b := range bs {
			buf[i] = byte(b.Val)
		}
		return &StrV{Conc: true, S: string(buf)}
	}
	return &StrV{Bytes: bs}
}

func (c *Ctx) strConcat(x, y *StrV) *StrV {
	if x.Opaque > 0 || y.Opaque > 0 {
		c.opaque++
		return &StrV{Opaque: c.opaque}
	}
	if x.Conc && y.Conc {
		return &StrV{Conc: true, S: x.S + y.S}
	}
	return c.mkStr(append(append([]*Term{}, c.strBytes(x)...), c.strBytes(y)...))
}

func (c *Ctx) strEq(x, y *StrV) *Term {
	if x.Opaque > 0 || y.Opaque > 0 {
		if x.Opaque == y.Opaque && x.Opaque > 0 {
			return c.tb.True
		}
		c.opaque++
		return c.tb.Var(fmt.Sprintf("opaque_streq_%d", c.opaque), 0)
	}
	if x.Conc && y.Conc {
		return c.tb.Bool(x.S == y.S)
	}
	a, b := c.strBytes(x), c.strBytes(y)
	if len(a) != len(b) {
		return c.tb.False
	}
	r := c.tb.True
	for i := range a {
		r = c.tb.And(r, c.tb.Eq(a[i], b[i]))
	}
	return r
}

func (c *Ctx) unop(st *State, f *Frame, x *ssa.UnOp) {
	tb := c.tb
	switch x.Op {
	case token.MUL: // load
		p, ok := c.get(st, f, x.X).(Ptr)
		if !ok {
			unsup("load through %T", c.get(st, f, x.X))
		}
		if p.IsNil() {
			c.runtimePanic(st, "invalid memory address or nil pointer dereference")
			return
		}
		c.set(f, x, c.load(st, p))
	case token.SUB:
		t := c.term(st, f, x.X)
		if isFloat(x.X.Type()) {
			if !t.IsConst() {
				unsup("symbolic float neg")
			}
			if t.W == 64 {
				c.set(f, x, tb.Const(64, math.Float64bits(-math.Float64frombits(t.Val))))
			} else {
				c.set(f, x, tb.Const(32, uint64(math.Float32bits(-math.Float32frombits(uint32(t.Val))))))
			}
		} else {
			c.set(f, x, tb.Neg(t))
		}
	case token.NOT:
		c.set(f, x, tb.Not(c.term(st, f, x.X)))
	case token.XOR:
		c.set(f, x, tb.BNot(c.term(st, f, x.X)))
	default:
		unsup("unop %v", x.Op)
	}
	f.ip++
}

func (c *Ctx) convert(st *State, v Value, from, to types.Type) Value {
	tb := c.tb
	fu, tu := from.Underlying(), to.Underlying()
	if fb, ok := fu.(*types.Basic); ok {
		if tbb, ok := tu.(*types.Basic); ok {
			// numeric <-> numeric
			if fb.Info()&types.IsNumeric != 0 && tbb.Info()&types.IsNumeric != 0 {
				t := v.(*Term)
				ff, tf := isFloat(from), isFloat(to)
				if ff || tf {
					return c.floatConv(t, from, to)
				}
				tw := typeWidth(to)
				if tw <= t.W {
					return tb.Extract(t, tw-1, 0)
				}
				if isSigned(from) {
					return tb.Sext(t, tw)
				}
				return tb.Zext(t, tw)
			}
			if tbb.Info()&types.IsString != 0 && fb.Info()&types.IsInteger != 0 {
				t := v.(*Term)
				if t.IsConst() {
					return &StrV{Conc: true, S: string(rune(sext64(t.Val, t.W)))}
				}
				unsup("string(symbolic rune)")
			}
			if fb.Info()&types.IsString != 0 && tbb.Info()&types.IsString != 0 {
				return v
			}
			if fb.Kind() == types.UnsafePointer || tbb.Kind() == types.UnsafePointer {
				unsup("unsafe pointer conversion")
			}
		}
		// string -> []byte
		if sl, ok := tu.(*types.Slice); ok && fb.Info()&types.IsString != 0 {
			s := v.(*StrV)
			if b, ok := sl.Elem().Underlying().(*types.Basic); ok && b.Kind() == types.Uint8 {
				bs := c.strBytes(s)
				arr := &SymArr{W: 8, Len: tb.Const(64, uint64(len(bs)))}
				for i, b := range bs {
					arr = arr.Write(tb, tb.Const(64, uint64(i)), b)
				}
				id := c.newObj(st, arr)
				n := tb.Const(64, uint64(len(bs)))
				return &SliceV{Arr: Ptr{Obj: id}, Off: tb.Const(64, 0), Len: n, Cap: n}
			}
			unsup("string -> %v", to)
		}
	}
	// []byte -> string
	if sl, ok := fu.(*types.Slice); ok {
		if tbb, ok := tu.(*types.Basic); ok && tbb.Info()&types.IsString != 0 {
			if b, ok := sl.Elem().Underlying().(*types.Basic); ok && b.Kind() == types.Uint8 {
				s := v.(*SliceV)
				if !s.Len.IsConst() {
					unsup("string([]byte) with symbolic length")
				}
				bs := make([]*Term, s.Len.Val)
				if s.Len.Val > 0 {
					arr := c.load(st, s.Arr).(*SymArr)
					for i := range bs {
						bs[i] = arr.Read(tb, tb.Add(s.Off, tb.Const(64, uint64(i))))
					}
				}
				return c.mkStr(bs)
			}
		}
	}
	if _, ok := tu.(*types.Pointer); ok {
		if _, ok := fu.(*types.Pointer); ok {
			return v
		}
	}
	unsup("convert %v -> %v", from, to)
	return nil
}

func (c *Ctx) floatConv(t *Term, from, to types.Type) Value {
	if !t.IsConst() {
		unsup("symbolic float conversion")
	}
	var fv float64
	switch {
	case isFloat(from) && t.W == 32:
		fv = float64(math.Float32frombits(uint32(t.Val)))
	case isFloat(from):
		fv = math.Float64frombits(t.Val)
	case isSigned(from):
		fv = float64(sext64(t.Val, t.W))
	default:
		fv = float64(t.Val)
	}
	if isFloat(to) {
		if typeWidth(to) == 32 {
			return c.tb.Const(32, uint64(math.Float32bits(float32(fv))))
		}
		return c.tb.Const(64, math.Float64bits(fv))
	}
	if isSigned(to) {
		return c.tb.Const(typeWidth(to), uint64(int64(fv)))
	}
	return c.tb.Const(typeWidth(to), uint64(fv))
}

// ---------------------------------------------------------------------------
// Slices, arrays, maps

func (c *Ctx) makeSlice(st *State, f *Frame, x *ssa.MakeSlice) {
	tb := c.tb
	ln := c.toInt64(c.term(st, f, x.Len), x.Len.Type())
	cp := c.subst(st, c.toInt64(c.term(st, f, x.Cap), x.Cap.Type()))
	if !c.forkPanic(st, tb.And(tb.Sle(tb.Const(64, 0), ln), tb.Sle(ln, cp)), "makeslice: len out of range") {
		return
	}
	et := x.Type().Underlying().(*types.Slice).Elem()
	var arr Value
	if isScalarType(et) {
		arr = &SymArr{W: typeWidth(et), Len: cp}
	} else {
		if !cp.IsConst() {
			vals := c.concretize(st, cp, 256)
			if vals == nil {
				return
			}
			// fork over capacities: re-execute instruction in each clone with constrained pc
			c.forkValues(st, cp, vals)
			return
		}
		va := &ValArr{E: make([]Value, cp.Val)}
		for i := range va.E {
			va.E[i] = tb.zero(et)
		}
		arr = va
	}
	id := c.newObj(st, arr)
	c.set(f, x, &SliceV{Arr: Ptr{Obj: id}, Off: tb.Const(64, 0), Len: ln, Cap: cp})
	f.ip++
}

// narrowWidth returns the smallest k in {16,24,32,40,48} such that the path condition implies 0 <= x,y < 2^k
// (unsigned view), or 0. Used to shrink division circuits.
func (c *Ctx) narrowWidth(st *State, x, y *Term) int {
	if x.W != 64 || st.pcUnsure {
		return 0
	}
	for _, k := range []int{16, 24, 32, 40, 48} {
		lim := c.tb.Const(64, uint64(1)<<uint(k))
		ok := c.tb.And(c.tb.Ult(x, lim), c.tb.Ult(y, lim))
		bad := c.tb.Not(ok)
		if bad.IsFalse() {
			return k
		}
		if st.model != nil && c.tb.Eval(bad, st.model, map[int]uint64{}) == 1 {
			continue
		}
		sl := c.slice(st, bad)
		r, _ := c.solve(append(append([]*Term{}, sl...), bad), 2000)
		if r == Unsat {
			return k
		}
	}
	return 0
}

// fewValues enumerates the feasible values of t if there are at most max of them; nil otherwise.
func (c *Ctx) fewValues(st *State, t *Term, max int) []uint64 {
	if os.Getenv("GOSMT_FEW") == "" {
		return nil // experimental: enumerating small-range shift amounts costs more queries than it saves
	}
	if st.pcUnsure {
		return nil
	}
	if st.noConst != nil {
		if n, ok := st.noConst[t.ID]; ok && n == len(st.pc) {
			return nil
		}
	}
	var vals []uint64
	extra := c.tb.True
	probe := c.tb.Var(fmt.Sprintf("__conc%d", t.W), t.W)
	sl := c.slice(st, t)
	for len(vals) <= max {
		ts := append(append([]*Term{}, sl...), extra, c.tb.Eq(probe, t))
		r, m := c.solve(ts, 2000)
		if r == Unsat {
			return vals
		}
		if r == Unknown || m == nil {
			break
		}
		v := m.Vars[fmt.Sprintf("__conc%d", t.W)]
		vals = append(vals, v)
		extra = c.tb.And(extra, c.tb.Ne(t, c.tb.Const(t.W, v)))
	}
	if st.noConst == nil {
		st.noConst = map[int]int{}
	}
	st.noConst[t.ID] = len(st.pc)
	return nil
}

// tryConst returns a constant if the path condition forces t to a single value (one model evaluation plus one
// solver query "pc and t != v"); otherwise t itself. Keeps symbolic shift amounts and indices out of later terms.
func (c *Ctx) tryConst(st *State, t *Term) *Term {
	if t.IsConst() {
		return t
	}
	if k, ok := st.subst[t.ID]; ok {
		return k
	}
	if st.pcUnsure {
		return t
	}
	if st.noConst != nil {
		if n, ok := st.noConst[t.ID]; ok && n == len(st.pc) {
			return t
		}
	}
	fail := func() *Term {
		if st.noConst == nil {
			st.noConst = map[int]int{}
		}
		st.noConst[t.ID] = len(st.pc)
		return t
	}
	var v uint64
	if st.model != nil {
		v = c.tb.Eval(t, st.model, map[int]uint64{})
	} else {
		sl := c.slice(st, t)
		probe := c.tb.Var(fmt.Sprintf("__probe%d", t.W), t.W)
		r, mm := c.solve(append(append([]*Term{}, sl...), c.tb.Eq(probe, t)), 2000)
		if r != Sat || mm == nil {
			return fail()
		}
		v = mm.Vars[fmt.Sprintf("__probe%d", t.W)]
	}
	k := c.tb.Const(t.W, v)
	ne := c.tb.Ne(t, k)
	if ne.IsFalse() {
		return k
	}
	sl := c.slice(st, ne)
	r, m := c.solve(append(append([]*Term{}, sl...), ne), 2000)
	if r == Unsat {
		st.addPC(c, c.tb.Eq(t, k)) // implied by pc: harmless, and lets later simplifications see it
		st.setSubst(t, k)
		return k
	}
	_ = m
	return fail()
}

func (c *Ctx) subst(st *State, t *Term) *Term {
	if st.subst != nil {
		if k, ok := st.subst[t.ID]; ok {
			return k
		}
	}
	return t
}

func (c *Ctx) toInt64(t *Term, typ types.Type) *Term {
	if t.W == 64 {
		return t
	}
	if isSigned(typ) {
		return c.tb.Sext(t, 64)
	}
	return c.tb.Zext(t, 64)
}

// concretize enumerates the feasible values of t under the path condition (at most max).
func (c *Ctx) concretize(st *State, t *Term, max int) []uint64 {
	if t.IsConst() {
		return []uint64{t.Val}
	}
	var vals []uint64
	extra := c.tb.True
	for len(vals) <= max {
		ts := append(append([]*Term{}, c.slice(st, t)...), extra)
		// make sure t itself is in the query
		probe := c.tb.Eq(t, t)
		_ = probe
		r, m := c.solve(append(ts, c.tb.Eq(c.tb.Var(fmt.Sprintf("__conc%d", t.W), t.W), t)), c.cfg.FeasTimeoutMs)
		if r == Unsat {
			return vals
		}
		if r == Unknown || m == nil {
			unsup("cannot concretize %s (solver unknown)", c.tb.Show(t))
		}
		v := m.Vars[fmt.Sprintf("__conc%d", t.W)]
		vals = append(vals, v)
		extra = c.tb.And(extra, c.tb.Ne(t, c.tb.Const(t.W, v)))
	}
	unsup("too many values for %s", c.tb.Show(t))
	return nil
}

// forkValues splits the current state into one per value (t == v); each re-executes the current instruction.
func (c *Ctx) forkValues(st *State, t *Term, vals []uint64) {
	if len(vals) == 0 {
		c.finish(st, &PathResult{Outcome: OutInfeasible})
		return
	}
	for i := 1; i < len(vals); i++ {
		cl := st.clone()
		cl.addPC(c, c.tb.Eq(t, c.tb.Const(t.W, vals[i])))
		cl.setSubst(t, c.tb.Const(t.W, vals[i]))
		c.work = append(c.work, cl)
	}
	st.addPC(c, c.tb.Eq(t, c.tb.Const(t.W, vals[0])))
	st.setSubst(t, c.tb.Const(t.W, vals[0]))
}

func (c *Ctx) indexAddr(st *State, f *Frame, x *ssa.IndexAddr) {
	tb := c.tb
	idx := c.subst(st, c.toInt64(c.term(st, f, x.Index), x.Index.Type()))
	switch b := c.get(st, f, x.X).(type) {
	case *SliceV:
		if !c.forkPanic(st, tb.Ult(idx, b.Len), "index out of range") {
			return
		}
		et := x.X.Type().Underlying().(*types.Slice).Elem()
		abs := tb.Add(b.Off, idx)
		if !isScalarType(et) && !abs.IsConst() {
			vals := c.concretize(st, idx, 256)
			c.forkValues(st, idx, vals)
			return
		}
		c.set(f, x, b.Arr.Child(Sel{F: -1, I: abs}))
	case Ptr: // pointer to array
		if b.IsNil() {
			c.runtimePanic(st, "nil array pointer")
			return
		}
		at := x.X.Type().Underlying().(*types.Pointer).Elem().Underlying().(*types.Array)
		if !c.forkPanic(st, tb.Ult(idx, tb.Const(64, uint64(at.Len()))), "index out of range") {
			return
		}
		if !isScalarType(at.Elem()) && !idx.IsConst() {
			vals := c.concretize(st, idx, 256)
			c.forkValues(st, idx, vals)
			return
		}
		c.set(f, x, b.Child(Sel{F: -1, I: idx}))
	default:
		unsup("IndexAddr on %T", b)
	}
	f.ip++
}

func (c *Ctx) index(st *State, f *Frame, x *ssa.Index) {
	tb := c.tb
	idx := c.toInt64(c.term(st, f, x.Index), x.Index.Type())
	switch b := c.get(st, f, x.X).(type) {
	case *SymArr:
		if !c.forkPanic(st, tb.Ult(idx, b.Len), "index out of range") {
			return
		}
		c.set(f, x, b.Read(tb, idx))
	case *ValArr:
		if !idx.IsConst() {
			unsup("symbolic Index into array value")
		}
		c.set(f, x, b.E[idx.Val])
	case *StrV:
		c.set(f, x, c.strIndex(st, b, idx))
		if st.done != nil || f.unwinding {
			return
		}
	default:
		unsup("Index on %T", b)
	}
	f.ip++
}

func (c *Ctx) strIndex(st *State, s *StrV, idx *Term) Value {
	tb := c.tb
	bs := c.strBytes(s)
	if !c.forkPanic(st, tb.Ult(idx, tb.Const(64, uint64(len(bs)))), "string index out of range") {
		return nil
	}
	if idx.IsConst() {
		return bs[idx.Val]
	}
	res := tb.Const(8, 0)
	for i := len(bs) - 1; i >= 0; i-- {
		res = tb.Ite(tb.Eq(idx, tb.Const(64, uint64(i))), bs[i], res)
	}
	return res
}

func (c *Ctx) mapKey(v Value) interface{} {
	switch k := v.(type) {
	case *StrV:
		if !k.Conc {
			unsup("symbolic map key (string)")
		}
		return k.S
	case *Term:
		if !k.IsConst() {
			unsup("symbolic map key")
		}
		return int64(k.Val)
	case *IfaceV:
		return c.mapKey(k.V)
	}
	unsup("map key of %T", v)
	return nil
}

func (c *Ctx) lookup(st *State, f *Frame, x *ssa.Lookup) {
	switch m := c.get(st, f, x.X).(type) {
	case MapV:
		vt := x.X.Type().Underlying().(*types.Map).Elem()
		var val Value
		found := false
		if m.Obj != 0 {
			mo := st.heap[m.Obj].(*MapObj)
			val, found = mo.M[c.mapKey(c.get(st, f, x.Index))]
		}
		if !found {
			val = c.tb.zero(vt)
		}
		if x.CommaOk {
			c.set(f, x, TupleV{val, c.tb.Bool(found)})
		} else {
			c.set(f, x, val)
		}
	case *StrV:
		idx := c.toInt64(c.term(st, f, x.Index), x.Index.Type())
		v := c.strIndex(st, m, idx)
		if st.done != nil || f.unwinding {
			return
		}
		c.set(f, x, v)
	default:
		unsup("Lookup on %T", m)
	}
	f.ip++
}

func (c *Ctx) sliceOp(st *State, f *Frame, x *ssa.Slice) {
	tb := c.tb
	opt := func(v ssa.Value, def *Term) *Term {
		if v == nil {
			return def
		}
		return c.toInt64(c.term(st, f, v), v.Type())
	}
	zero := tb.Const(64, 0)
	switch b := c.get(st, f, x.X).(type) {
	case *SliceV:
		lo := opt(x.Low, zero)
		hi := opt(x.High, b.Len)
		mx := opt(x.Max, b.Cap)
		ok := tb.And(tb.Ule(lo, hi), tb.And(tb.Ule(hi, mx), tb.Ule(mx, b.Cap)))
		if !c.forkPanic(st, ok, "slice bounds out of range") {
			return
		}
		c.set(f, x, &SliceV{Arr: b.Arr, Off: tb.Add(b.Off, lo), Len: tb.Sub(hi, lo), Cap: tb.Sub(mx, lo), Nil: b.Nil && x.Low == nil && x.High == nil})
	case Ptr: // *array
		if b.IsNil() {
			c.runtimePanic(st, "nil array pointer slice")
			return
		}
		at := x.X.Type().Underlying().(*types.Pointer).Elem().Underlying().(*types.Array)
		n := tb.Const(64, uint64(at.Len()))
		lo := opt(x.Low, zero)
		hi := opt(x.High, n)
		mx := opt(x.Max, n)
		ok := tb.And(tb.Ule(lo, hi), tb.And(tb.Ule(hi, mx), tb.Ule(mx, n)))
		if !c.forkPanic(st, ok, "slice bounds out of range") {
			return
		}
		c.set(f, x, &SliceV{Arr: b, Off: lo, Len: tb.Sub(hi, lo), Cap: tb.Sub(mx, lo)})
	case *StrV:
		bs := c.strBytes(b)
		lo := opt(x.Low, zero)
		hi := opt(x.High, tb.Const(64, uint64(len(bs))))
		if !lo.IsConst() || !hi.IsConst() {
			unsup("string slice with symbolic bounds")
		}
		if lo.Val > hi.Val || hi.Val > uint64(len(bs)) {
			c.runtimePanic(st, "string slice bounds out of range")
			return
		}
		c.set(f, x, c.mkStr(bs[lo.Val:hi.Val]))
	default:
		unsup("Slice on %T", b)
	}
	f.ip++
}

func (c *Ctx) typeAssert(st *State, f *Frame, x *ssa.TypeAssert) {
	iv, ok := c.get(st, f, x.X).(*IfaceV)
	if !ok {
		unsup("TypeAssert on %T", c.get(st, f, x.X))
	}
	okv := false
	var res Value
	if iv.T != nil {
		if it, isI := x.AssertedType.Underlying().(*types.Interface); isI {
			okv = types.Implements(iv.T, it)
			if okv {
				res = iv
			}
		} else {
			okv = types.Identical(iv.T, x.AssertedType)
			if okv {
				res = iv.V
			}
		}
	}
	if x.CommaOk {
		if !okv {
			res = c.tb.zero(x.AssertedType)
		}
		c.set(f, x, TupleV{res, c.tb.Bool(okv)})
		f.ip++
		return
	}
	if !okv {
		c.runtimePanic(st, fmt.Sprintf("interface conversion: %v is not %v", iv.T, x.AssertedType))
		return
	}
	c.set(f, x, res)
	f.ip++
}

func (c *Ctx) rangeOp(st *State, f *Frame, x *ssa.Range) {
	switch m := c.get(st, f, x.X).(type) {
	case MapV:
		it := &IterV{}
		if m.Obj != 0 {
			mo := st.heap[m.Obj].(*MapObj)
			it.Keys = append(it.Keys, mo.Keys...)
			for _, k := range mo.Keys {
				it.Vals = append(it.Vals, mo.M[k])
			}
		}
		c.set(f, x, it)
	case *StrV:
		c.set(f, x, &IterV{Str: m})
	default:
		unsup("Range over %T", m)
	}
	f.ip++
}

func (c *Ctx) nextOp(st *State, f *Frame, x *ssa.Next) {
	it := c.get(st, f, x.Iter).(*IterV)
	tb := c.tb
	tt := x.Type().(*types.Tuple)
	if x.IsString {
		bs := c.strBytes(it.Str)
		if it.Pos >= len(bs) {
			c.set(f, x, TupleV{tb.False, tb.Const(64, 0), tb.Const(32, 0)})
		} else {
			b := bs[it.Pos]
			if !b.IsConst() {
				// assume ASCII for symbolic bytes
				c.set(f, x, TupleV{tb.True, tb.Const(64, uint64(it.Pos)), tb.Zext(b, 32)})
				it2 := *it
				it2.Pos++
				c.set(f, x.Iter.(ssa.Value), &it2)
			} else {
				s := it.Str.S
				if !it.Str.Conc {
					buf := make([]byte, len(bs))
					for i, bb := range bs {
						if bb.IsConst() {
							buf[i] = byte(bb.Val)
						} else {
							buf[i] = 'a'
						}
					}
					s = string(buf)
				}
				r, sz := decodeRune(s[it.Pos:])
				c.set(f, x, TupleV{tb.True, tb.Const(64, uint64(it.Pos)), tb.Const(32, uint64(r))})
				it2 := *it
				it2.Pos += sz
				c.set(f, x.Iter.(ssa.Value), &it2)
			}
		}
		f.ip++
		return
	}
	kt, vt := tt.At(1).Type(), tt.At(2).Type()
	if it.Pos >= len(it.Keys) {
		c.set(f, x, TupleV{tb.False, c.zeroOrNil(kt), c.zeroOrNil(vt)})
	} else {
		var kv Value
		switch k := it.Keys[it.Pos].(type) {
		case string:
			kv = &StrV{Conc: true, S: k}
		case int64:
			kv = tb.Const(typeWidthOr64(kt), uint64(k))
		}
		c.set(f, x, TupleV{tb.True, kv, it.Vals[it.Pos]})
		it2 := *it
		it2.Pos++
		c.set(f, x.Iter.(ssa.Value), &it2)
	}
	f.ip++
}

func typeWidthOr64(t types.Type) int {
	if _, ok := t.Underlying().(*types.Basic); ok && isScalarType(t) {
		return typeWidth(t)
	}
	return 64
}

func (c *Ctx) zeroOrNil(t types.Type) Value {
	if b, ok := t.(*types.Basic); ok && b.Kind() == types.Invalid {
		return nil
	}
	return c.tb.zero(t)
}

func decodeRune(s string) (rune, int) {
	for i, r := range s {
		_ = i
		n := len(string(r))
		if r == 0xFFFD {
			n = 1
		}
		return r, n
	}
	return 0, 0
}

// ---------------------------------------------------------------------------
// Calls

func (c *Ctx) callee(st *State, f *Frame, cc *ssa.CallCommon) (*FuncV, []Value) {
	args := make([]Value, 0, len(cc.Args)+1)
	if cc.IsInvoke() {
		iv, ok := c.get(st, f, cc.Value).(*IfaceV)
		if !ok {
			unsup("invoke on %T", c.get(st, f, cc.Value))
		}
		if iv.T == nil {
			c.runtimePanic(st, "invalid memory address or nil pointer dereference (nil interface method call)")
			return nil, nil
		}
		fn := c.prog.LookupMethod(iv.T, cc.Method.Pkg(), cc.Method.Name())
		if fn == nil {
			unsup("method %s not found on %v", cc.Method.Name(), iv.T)
		}
		args = append(args, iv.V)
		for _, a := range cc.Args {
			args = append(args, c.get(st, f, a))
		}
		return &FuncV{Fn: fn}, args
	}
	for _, a := range cc.Args {
		args = append(args, c.get(st, f, a))
	}
	switch v := cc.Value.(type) {
	case *ssa.Function:
		return &FuncV{Fn: v}, args
	case *ssa.Builtin:
		return &FuncV{Bi: v}, args
	}
	fv, ok := c.get(st, f, cc.Value).(*FuncV)
	if !ok {
		unsup("call of %T", c.get(st, f, cc.Value))
	}
	return fv, args
}

func (c *Ctx) call(st *State, f *Frame, cc *ssa.CallCommon, ins ssa.Instruction) {
	fv, args := c.callee(st, f, cc)
	if st.done != nil || f.unwinding {
		return
	}
	retSlot := -1
	if v, ok := ins.(*ssa.Call); ok {
		retSlot = c.slotMap(f.fn)[v]
	}
	_, isGo := ins.(*ssa.Go)
	if fv != nil && fv.Bi != nil {
		res, done := c.builtin(st, f, fv.Bi, args, cc)
		if !done {
			return
		}
		if retSlot >= 0 {
			f.env[retSlot] = res
		}
		f.ip++
		return
	}
	if fv == nil {
		c.runtimePanic(st, "call of nil function")
		return
	}
	nframes := len(st.frames)
	pushed, res := c.invoke(st, fv, args, retSlot, func(nf *Frame) { nf.goRoot = isGo })
	if st.done != nil {
		return
	}
	if len(st.frames) == nframes && !(f.unwinding) && !pushed {
		// intrinsic completed synchronously
		if retSlot >= 0 {
			f.env[retSlot] = res
		}
		f.ip++
	}
}

func (c *Ctx) builtin(st *State, f *Frame, b *ssa.Builtin, args []Value, cc *ssa.CallCommon) (Value, bool) {
	tb := c.tb
	switch b.Name() {
	case "len":
		switch x := args[0].(type) {
		case *SliceV:
			return x.Len, true
		case *StrV:
			if x.Opaque > 0 {
				c.opaque++
				return tb.Var(fmt.Sprintf("opaque_len_%d", c.opaque), 64), true
			}
			return tb.Const(64, uint64(len(c.strBytes(x)))), true
		case MapV:
			if x.Obj == 0 {
				return tb.Const(64, 0), true
			}
			return tb.Const(64, uint64(len(st.heap[x.Obj].(*MapObj).M))), true
		case *SymArr:
			return x.Len, true
		case *ValArr:
			return tb.Const(64, uint64(len(x.E))), true
		case Ptr:
			at := cc.Args[0].Type().Underlying().(*types.Pointer).Elem().Underlying().(*types.Array)
			return tb.Const(64, uint64(at.Len())), true
		}
	case "cap":
		switch x := args[0].(type) {
		case *SliceV:
			return x.Cap, true
		}
	case "min", "max":
		r := args[0].(*Term)
		signed := isSigned(cc.Args[0].Type())
		for _, a := range args[1:] {
			t := a.(*Term)
			var lt *Term
			if signed {
				lt = tb.Slt(t, r)
			} else {
				lt = tb.Ult(t, r)
			}
			if b.Name() == "max" {
				lt = tb.Not(tb.Or(lt, tb.Eq(t, r)))
				// t > r
			}
			r = tb.Ite(lt, t, r)
		}
		return r, true
	case "copy":
		return c.copyBuiltin(st, args[0].(*SliceV), args[1], cc), true
	case "append":
		return c.appendBuiltin(st, f, args, cc)
	case "panic":
		c.startPanic(st, args[0], "panic: "+c.describe(args[0]))
		return nil, false
	case "recover":
		return c.recoverBuiltin(st), true
	case "delete":
		m := args[0].(MapV)
		if m.Obj != 0 {
			st.heap[m.Obj] = st.heap[m.Obj].(*MapObj).del(c.mapKey(args[1]))
		}
		return nil, true
	case "clear":
		switch x := args[0].(type) {
		case MapV:
			if x.Obj != 0 {
				st.heap[x.Obj] = &MapObj{M: map[interface{}]Value{}}
			}
			return nil, true
		case *SliceV:
			et := cc.Args[0].Type().Underlying().(*types.Slice).Elem()
			if isScalarType(et) {
				if x.Len.IsConst() && x.Len.Val == 0 {
					return nil, true
				}
				arr := c.load(st, x.Arr).(*SymArr)
				zeroSrc := &SymArr{W: arr.W, Len: x.Len}
				c.store(st, x.Arr, arr.CopyIn(tb, x.Off, x.Len, zeroSrc, tb.Const(64, 0)))
				return nil, true
			}
		}
	case "print", "println":
		return nil, true
	case "ssa:wrapnilchk":
		p := args[0].(Ptr)
		if p.IsNil() {
			c.runtimePanic(st, "nil pointer in method wrapper")
			return nil, false
		}
		return p, true
	}
	unsup("builtin %s on %T", b.Name(), args[0])
	return nil, false
}

func (c *Ctx) recoverBuiltin(st *State) Value {
	// valid when the calling frame is a deferred call run by a frame that is unwinding
	n := len(st.frames)
	if n >= 2 && st.frames[n-1].deferCall && st.frames[n-2].unwinding && len(st.panics) > 0 {
		p := st.panics[len(st.panics)-1]
		if p.depth == n-2 && !st.frames[n-2].recovered {
			st.frames[n-2].recovered = true
			return p.val
		}
	}
	return &IfaceV{}
}

func (c *Ctx) copyBuiltin(st *State, dst *SliceV, srcV Value, cc *ssa.CallCommon) Value {
	tb := c.tb
	et := cc.Args[0].Type().Underlying().(*types.Slice).Elem()
	if s, ok := srcV.(*StrV); ok {
		bs := c.strBytes(s)
		n := tb.Const(64, uint64(len(bs)))
		lt := tb.Ult(dst.Len, n)
		if !lt.IsConst() {
			unsup("copy(string) with symbolic dst length")
		}
		cnt := len(bs)
		if lt.IsTrue() {
			cnt = int(dst.Len.Val)
		}
		if cnt > 0 {
			arr := c.load(st, dst.Arr).(*SymArr)
			for i := 0; i < cnt; i++ {
				arr = arr.Write(tb, tb.Add(dst.Off, tb.Const(64, uint64(i))), bs[i])
			}
			c.store(st, dst.Arr, arr)
		}
		return tb.Const(64, uint64(cnt))
	}
	src := srcV.(*SliceV)
	n := tb.Ite(tb.Ult(src.Len, dst.Len), src.Len, dst.Len)
	if n.IsConst() && n.Val == 0 {
		return n
	}
	if isScalarType(et) {
		if dst.Nil || src.Nil {
			return n
		}
		da := c.load(st, dst.Arr).(*SymArr)
		sa := c.load(st, src.Arr).(*SymArr)
		c.store(st, dst.Arr, da.CopyIn(tb, dst.Off, n, sa, src.Off))
		return n
	}
	if !n.IsConst() || !dst.Off.IsConst() || !src.Off.IsConst() {
		unsup("copy of non-scalar slices with symbolic extent")
	}
	da := c.load(st, dst.Arr).(*ValArr)
	sa := c.load(st, src.Arr).(*ValArr)
	nd := &ValArr{E: append([]Value(nil), da.E...)}
	for i := uint64(0); i < n.Val; i++ {
		nd.E[dst.Off.Val+i] = sa.E[src.Off.Val+i]
	}
	c.store(st, dst.Arr, nd)
	return n
}

func (c *Ctx) appendBuiltin(st *State, f *Frame, args []Value, cc *ssa.CallCommon) (Value, bool) {
	tb := c.tb
	dst := args[0].(*SliceV)
	et := cc.Args[0].Type().Underlying().(*types.Slice).Elem()
	var srcLen *Term
	var srcS *SliceV
	var srcBytes []*Term
	switch s := args[1].(type) {
	case *SliceV:
		srcS = s
		srcLen = s.Len
	case *StrV:
		srcBytes = c.strBytes(s)
		srcLen = tb.Const(64, uint64(len(srcBytes)))
	default:
		unsup("append of %T", args[1])
	}
	if srcLen.IsConst() && srcLen.Val == 0 {
		return dst, true
	}
	newLen := tb.Add(dst.Len, srcLen)
	fits := tb.Ule(newLen, dst.Cap)
	if !fits.IsConst() {
		// fork on capacity
		ff, mf, uf := c.feasible(st, fits)
		fn, mn, un := c.feasible(st, tb.Not(fits))
		if ff && fn {
			cl := st.clone()
			cl.addPC(c, tb.Not(fits))
			if mn != nil {
				cl.model = mn
			}
			cl.pcUnsure = cl.pcUnsure || un
			c.work = append(c.work, cl)
			st.addPC(c, fits)
			if mf != nil {
				st.model = mf
			}
			st.pcUnsure = st.pcUnsure || uf
			fits = tb.True
		} else if ff {
			st.addPC(c, fits)
			fits = tb.True
		} else {
			st.addPC(c, tb.Not(fits))
			fits = tb.False
		}
	}
	scalar := isScalarType(et)
	var target *SliceV
	if fits.IsTrue() && !dst.Nil {
		target = &SliceV{Arr: dst.Arr, Off: dst.Off, Len: newLen, Cap: dst.Cap}
	} else {
		// new backing array, exact capacity
		var arr Value
		if scalar {
			na := &SymArr{W: typeWidth(et), Len: newLen}
			if !dst.Nil && !(dst.Len.IsConst() && dst.Len.Val == 0) {
				na = na.CopyIn(tb, tb.Const(64, 0), dst.Len, c.load(st, dst.Arr).(*SymArr), dst.Off)
			}
			arr = na
		} else {
			if !newLen.IsConst() || !dst.Len.IsConst() || !dst.Off.IsConst() {
				unsup("append to non-scalar slice with symbolic length")
			}
			va := &ValArr{E: make([]Value, newLen.Val)}
			for i := range va.E {
				va.E[i] = tb.zero(et)
			}
			if dst.Len.Val > 0 {
				old := c.load(st, dst.Arr).(*ValArr)
				copy(va.E, old.E[dst.Off.Val:dst.Off.Val+dst.Len.Val])
			}
			arr = va
		}
		id := c.newObj(st, arr)
		target = &SliceV{Arr: Ptr{Obj: id}, Off: tb.Const(64, 0), Len: newLen, Cap: newLen}
	}
	// copy source elements
	pos := tb.Add(target.Off, dst.Len)
	if scalar {
		arr := c.load(st, target.Arr).(*SymArr)
		if srcS != nil {
			arr = arr.CopyIn(tb, pos, srcLen, c.load(st, srcS.Arr).(*SymArr), srcS.Off)
		} else {
			for i, b := range srcBytes {
				arr = arr.Write(tb, tb.Add(pos, tb.Const(64, uint64(i))), b)
			}
		}
		c.store(st, target.Arr, arr)
	} else {
		if !pos.IsConst() || !srcLen.IsConst() || !srcS.Off.IsConst() {
			unsup("append non-scalar with symbolic extent")
		}
		arr := c.load(st, target.Arr).(*ValArr)
		na := &ValArr{E: append([]Value(nil), arr.E...)}
		sa := c.load(st, srcS.Arr).(*ValArr)
		for i := uint64(0); i < srcLen.Val; i++ {
			na.E[pos.Val+i] = sa.E[srcS.Off.Val+i]
		}
		c.store(st, target.Arr, na)
	}
	return target, true
}

// ensureInit runs the package initializer of p (once per state lineage) in nested mode.
func (c *Ctx) ensureInit(st *State, p *ssa.Package) {
	if p == nil {
		return
	}
	key := "init:" + p.Pkg.Path()
	if st.hooks == nil {
		st.hooks = map[string]Value{}
	}
	if _, ok := st.hooks[key]; ok {
		return
	}
	st.hooks[key] = true
	initFn := p.Func("init")
	if initFn == nil || initFn.Blocks == nil {
		return
	}
	if c.cfg.Verbose {
		fmt.Printf("  init %s ...\n", p.Pkg.Path())
	}
	depth := len(st.frames)
	// run init with result discarded; the current instruction of the caller will be re-executed afterwards
	savedWork := len(c.work)
	fr := c.pushFrame(st, initFn, nil, nil, -1)
	fr.deferCall = true // do not advance caller ip on return
	c.runPath(st, depth)
	if st.done != nil {
		// init failed: tolerate (leave remaining globals zero) but remember why
		c.nestedErr = fmt.Sprintf("init of %s stopped: %s %s", p.Pkg.Path(), st.done.Outcome, st.done.Msg)
		if c.cfg.Verbose {
			fmt.Println("   ", c.nestedErr)
		}
		st.done = nil
		st.panics = nil
		for len(st.frames) > depth {
			c.dropFrame(st)
		}
	}
	if len(c.work) != savedWork {
		c.work = c.work[:savedWork]
		c.nestedErr = "init of " + p.Pkg.Path() + " forked"
	}
}

func pkgPathOf(fn *ssa.Function) string {
	if fn.Pkg != nil {
		return fn.Pkg.Pkg.Path()
	}
	if fn.Origin() != nil && fn.Origin().Pkg != nil {
		return fn.Origin().Pkg.Pkg.Path()
	}
	return ""
}

func fullName(fn *ssa.Function) string {
	s := fn.String()
	return strings.TrimPrefix(s, "github.com/flanglet/kanzi-go/v2/")
}
