package main

import (
	"encoding/json"
	"flag"
	"fmt"
	"os"
	"strconv"
	"strings"
)

func main() {
	if len(os.Args) < 2 {
		fmt.Println("usage: gosmt harness|check|replay|selfcheck ...")
		os.Exit(2)
	}
	switch os.Args[1] {
	case "harness":
		cmdHarness(os.Args[2:])
	case "check":
		os.Exit(cmdCheck(os.Args[2:]))
	case "replay":
		r, out := runReplay(os.Args[2])
		fmt.Println("confirmed:", r)
		fmt.Println(out)
		if r == "yes" {
			os.Exit(1)
		}
	case "proto":
		// debug: gosmt proto <side> <N>
		scratch, _ := os.MkdirTemp("", "gosmt-*")
		defer os.RemoveAll(scratch)
		l, err := loadProgram([]string{"io"}, scratch)
		if err != nil {
			fmt.Println(err)
			os.Exit(2)
		}
		n, _ := strconv.Atoi(os.Args[3])
		rep := &protoReport{Side: os.Args[2], N: n}
		c, trees, np, probs := extractTrees(l, os.Args[2], n, map[string]uint64{"internal.GetMagicType": 0})
		fmt.Println("paths", np, "problems", probs)
		for _, tr := range trees {
			fmt.Println("task", tr.task, "nodes", len(tr.nodes), "depth", tr.depth)
			for _, nd := range tr.nodes {
				for _, e := range nd.edges {
					fmt.Printf("   %d -[%s]-> %d %s %s\n", nd.id, c.tb.Show(e.guard), e.to.id, e.to.ev.Kind, e.to.ev.Site)
				}
			}
		}
		protoBMC(c, os.Args[2], trees, rep, 60000)
		b, _ := json.MarshalIndent(rep, "", " ")
		fmt.Println(string(b))
	case "selfcheck":
		os.Exit(cmdSelfcheck(os.Args[2:]))
	default:
		fmt.Println("unknown command")
		os.Exit(2)
	}
}

type multiFlag []string

func (m *multiFlag) String() string     { return strings.Join(*m, ",") }
func (m *multiFlag) Set(s string) error { *m = append(*m, s); return nil }

func cmdHarness(args []string) {
	fs := flag.NewFlagSet("harness", flag.ExitOnError)
	unwind := fs.Int("unwind", 64, "unwinding bound")
	verbose := fs.Bool("v", false, "verbose")
	workers := fs.Int("j", 16, "workers")
	replay := fs.Bool("replay", false, "replay violations natively")
	dump := fs.String("dump", "", "dump verdict queries to dir")
	ref := fs.Bool("ref", false, "overlay the frozen reference sources as .../v2/zzref")
	conc := fs.Bool("conc", false, "concretize symbolic field stores when the path condition forces a single value")
	solver := fs.String("solver", "", "main solver (z3, z3-new)")
	var params multiFlag
	fs.Var(&params, "p", "param name=value")
	var fb multiFlag
	fs.Var(&fb, "stubfb", "function replaced by first-byte hash abstraction")
	var stubs multiFlag
	fs.Var(&stubs, "stub", "function=constant")
	fs.Parse(args)
	if fs.NArg() < 2 {
		fmt.Println("usage: gosmt harness [flags] <pkgdir> <func>")
		os.Exit(2)
	}
	useRef = *ref
	spec := HarnessSpec{Pkg: fs.Arg(0), Func: fs.Arg(1), Unwind: *unwind, Params: map[string]int{}, Solver: *solver, ConcStores: *conc}
	for _, p := range params {
		kv := strings.SplitN(p, "=", 2)
		v, _ := strconv.Atoi(kv[1])
		spec.Params[kv[0]] = v
	}
	spec.StubFirstByte = fb
	for _, p := range stubs {
		kv := strings.SplitN(p, "=", 2)
		v, _ := strconv.ParseUint(kv[1], 0, 64)
		if spec.StubConst == nil {
			spec.StubConst = map[string]uint64{}
		}
		spec.StubConst[kv[0]] = v
	}
	scratch, _ := os.MkdirTemp("", "gosmt-*")
	defer os.RemoveAll(scratch)
	l, err := loadProgram([]string{spec.Pkg}, scratch)
	if err != nil {
		fmt.Println("load error:", err)
		os.Exit(2)
	}
	rep := runHarness(l, spec, *workers, *verbose, *dump)
	if *replay {
		for i, v := range rep.Violations {
			if i >= 3 {
				break
			}
			dir := fmt.Sprintf("%s/replay%d", scratch, i)
			prepareReplay(dir, spec, v)
			v.Confirmed, v.ReplayOut = runReplay(dir)
		}
	}
	b, _ := json.MarshalIndent(rep, "", " ")
	fmt.Println(string(b))
	fmt.Printf("solver: queries=%d sat=%d unsat=%d unknown=%d cachehits=%d time=%.1fs\n", globalStats.Queries, globalStats.Sat, globalStats.Unsat, globalStats.Unknown, globalStats.CacheHit, float64(globalStats.Nanos)/1e9)
}
