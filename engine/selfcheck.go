package main

func selfcheck() int { return 0 }
