package main

import (
	"os"
	"time"
	"fmt"
	"go/types"
	"sort"
	"strings"

	"golang.org/x/tools/go/ssa"
)

type Outcome int

const (
	OutDone Outcome = iota
	OutAssertFail
	OutPanic // un-recovered panic reached the harness boundary (or killed a goroutine)
	OutInfeasible
	OutUnwind
	OutUnsupported
	OutStepLimit
	OutSolverUnknown
)

func (o Outcome) String() string {
	return [...]string{"done", "assert-fail", "panic", "infeasible", "unwind-failure", "unsupported", "step-limit", "solver-unknown"}[o]
}

// protoStep is one visible operation of a task in protocol mode (C07).
type protoStep struct {
	Kind  string // load, store, cas, io, done, result
	A, B  *Term  // store: value; cas: old,new; io/result: arguments
	Var   *Term  // load: the fresh value variable; cas: the fresh Boolean result
	PcLen int    // len(pc) when the event was emitted
	Site  string
}

type PathResult struct {
	Proto   []protoStep
	PC      []*Term
	Outcome Outcome
	Label   string
	Msg     string
	Model   *Model
	Inputs  map[string]uint64 // replay table
	Reach   []string
	Notes   []string
	Steps   int
	Case    string
}

type deferred struct {
	fn   *FuncV
	args []Value
}

type Frame struct {
	fn        *ssa.Function
	env       []Value
	block     *ssa.BasicBlock
	prev      *ssa.BasicBlock
	ip        int
	defers    []deferred
	retSlot   int // slot in caller env for the result, -1 = discard
	visits    map[int]int
	locals    []int
	goRoot    bool // frame started by a `go` statement
	deferCall bool // frame is a deferred call being run
	unwinding bool // this frame is being unwound by a panic (running its defers)
	recovered bool
	runDefers bool // executing RunDefers instruction (normal path)
	stopAt    bool // nested-run sentinel: stop the nested loop when this frame returns
}

type panicRec struct {
	val   Value
	msg   string
	depth int // index in frames of the frame being unwound
}

type State struct {
	heap     map[int]Value
	frames   []*Frame
	pc       []*Term
	pcSet    map[int]bool
	model    *Model
	pcUnsure bool // some feasibility answer was unknown: pc may be unsat
	panics   []*panicRec
	names    map[string]int
	inputs   []inputRec
	reach    []string
	notes    []string
	steps    int
	done     *PathResult
	hooks    map[string]Value // scratch for intrinsics
	subst    map[int]*Term    // term id -> constant implied by pc (t == k)
	retry    bool
	prefix   string
	proto    []protoStep // protocol-mode event trace
	noConst  map[int]int      // term id -> len(pc) at which tryConst last failed
}

type inputRec struct {
	Key  string // replay key
	T    *Term  // var term, or nil for UF-based arrays
	UF   string
	Len  *Term
	Kind string
}

func (st *State) clone() *State {
	n := &State{heap: make(map[int]Value, len(st.heap)), pcUnsure: st.pcUnsure, model: st.model, steps: st.steps, prefix: st.prefix}
	for k, v := range st.heap {
		n.heap[k] = v
	}
	n.frames = make([]*Frame, len(st.frames))
	for i, f := range st.frames {
		nf := *f
		nf.env = append([]Value(nil), f.env...)
		nf.defers = append([]deferred(nil), f.defers...)
		nf.locals = append([]int(nil), f.locals...)
		if f.visits != nil {
			nf.visits = make(map[int]int, len(f.visits))
			for k, v := range f.visits {
				nf.visits[k] = v
			}
		}
		n.frames[i] = &nf
	}
	n.pc = append([]*Term(nil), st.pc...)
	n.pcSet = make(map[int]bool, len(st.pcSet))
	for k := range st.pcSet {
		n.pcSet[k] = true
	}
	for _, p := range st.panics {
		cp := *p
		n.panics = append(n.panics, &cp)
	}
	n.names = make(map[string]int, len(st.names))
	for k, v := range st.names {
		n.names[k] = v
	}
	n.inputs = append([]inputRec(nil), st.inputs...)
	n.proto = append([]protoStep(nil), st.proto...)
	n.reach = append([]string(nil), st.reach...)
	n.notes = append([]string(nil), st.notes...)
	if st.subst != nil {
		n.subst = make(map[int]*Term, len(st.subst))
		for k, v := range st.subst {
			n.subst[k] = v
		}
	}
	if st.noConst != nil {
		n.noConst = make(map[int]int, len(st.noConst))
		for k, v := range st.noConst {
			n.noConst[k] = v
		}
	}
	if st.hooks != nil {
		n.hooks = make(map[string]Value, len(st.hooks))
		for k, v := range st.hooks {
			n.hooks[k] = v
		}
	}
	return n
}

func (st *State) setSubst(t, k *Term) {
	if st.subst == nil {
		st.subst = map[int]*Term{}
	}
	st.subst[t.ID] = k
}

func (st *State) top() *Frame { return st.frames[len(st.frames)-1] }

// ---------------------------------------------------------------------------

type Config struct {
	Unwind        int
	MaxSteps      int
	MaxPaths      int
	FeasTimeoutMs int
	VerdTimeoutMs int
	Cases         map[string]int64
	Verbose       bool
	DumpQueries   string
	CaseName      string
	StopAtFirst   bool
	Params        map[string]int
	Solver        string
	ConcStores    bool
	StubConst     map[string]uint64
	StubFirstByte []string
	CasesAsForks  bool
	SelfSeed      uint64
	NamePrefix    string
}

type caseReq struct {
	Name   string
	Lo, Hi int64
}

type Ctx struct {
	tb       *TB
	prog     *ssa.Program
	solver   *Solver
	cfg      Config
	work     []*State
	results  []*PathResult
	funcs    map[*ssa.Function]int
	slots    map[*ssa.Function]map[ssa.Value]int
	globals  map[*ssa.Global]int
	inited   map[*ssa.Package]bool
	nextObj  int
	satCache map[string]satEntry
	varsOf   map[int][]string
	needCase *caseReq
	paths    int
	opaque   int
	errStrT  types.Type
	verdictQ int
	reachAll map[string]bool
	asserts  map[string]int // label -> number of times checked (non-trivially or trivially)
	dumpN    int
	nestedErr string
}

type satEntry struct {
	r SatResult
	m *Model
}

func NewCtx(prog *ssa.Program, cfg Config) *Ctx {
	c := &Ctx{tb: NewTB(), prog: prog, cfg: cfg, funcs: map[*ssa.Function]int{}, slots: map[*ssa.Function]map[ssa.Value]int{},
		globals: map[*ssa.Global]int{}, inited: map[*ssa.Package]bool{}, satCache: map[string]satEntry{}, varsOf: map[int][]string{},
		reachAll: map[string]bool{}, asserts: map[string]int{}}
	sk := envOr("GOSMT_SOLVER", "z3")
	if cfg.Solver != "" {
		sk = cfg.Solver
	}
	c.solver = NewSolver(sk)
	if c.cfg.Unwind == 0 {
		c.cfg.Unwind = 64
	}
	if c.cfg.MaxSteps == 0 {
		c.cfg.MaxSteps = 20_000_000
	}
	if c.cfg.FeasTimeoutMs == 0 {
		c.cfg.FeasTimeoutMs = 5000
	}
	if c.cfg.VerdTimeoutMs == 0 {
		c.cfg.VerdTimeoutMs = 60000
	}
	if ep := prog.ImportedPackage("errors"); ep != nil {
		if t := ep.Type("errorString"); t != nil {
			c.errStrT = types.NewPointer(t.Type())
		}
	}
	return c
}

func (c *Ctx) Close() { c.solver.Close() }

func (c *Ctx) newObj(st *State, v Value) int {
	c.nextObj++
	st.heap[c.nextObj] = v
	return c.nextObj
}

// ---------------------------------------------------------------------------
// Path condition handling

func (c *Ctx) termVars(t *Term) []string {
	if v, ok := c.varsOf[t.ID]; ok {
		return v
	}
	set := map[string]bool{}
	seen := map[int]bool{}
	var visit func(t *Term)
	visit = func(t *Term) {
		if seen[t.ID] {
			return
		}
		seen[t.ID] = true
		if t.Op == OVar {
			set[t.Name] = true
		} else if t.Op == OUF {
			set["uf:"+t.Name] = true
		}
		for _, a := range t.Args {
			visit(a)
		}
	}
	visit(t)
	var vs []string
	for k := range set {
		vs = append(vs, k)
	}
	sort.Strings(vs)
	c.varsOf[t.ID] = vs
	return vs
}

func (st *State) addPC(c *Ctx, t *Term) {
	if t.IsTrue() {
		return
	}
	// split conjunctions
	if t.Op == OAnd {
		st.addPC(c, t.Args[0])
		st.addPC(c, t.Args[1])
		return
	}
	if st.pcSet == nil {
		st.pcSet = map[int]bool{}
	}
	if st.pcSet[t.ID] {
		return
	}
	st.pcSet[t.ID] = true
	st.pc = append(st.pc, t)
	if t.Op == OEq && t.Args[0].W > 0 {
		if t.Args[1].IsConst() && !t.Args[0].IsConst() {
			st.setSubst(t.Args[0], t.Args[1])
		} else if t.Args[0].IsConst() && !t.Args[1].IsConst() {
			st.setSubst(t.Args[1], t.Args[0])
		}
	}
	if st.model != nil {
		if c.tb.Eval(t, st.model, map[int]uint64{}) != 1 {
			st.model = nil
		}
	}
}

// slice returns the conjuncts of pc that (transitively) share variables with extra.
func (c *Ctx) slice(st *State, extra *Term) []*Term {
	if st.pcUnsure {
		return st.pc
	}
	want := map[string]bool{}
	for _, v := range c.termVars(extra) {
		want[v] = true
	}
	used := make([]bool, len(st.pc))
	changed := true
	var out []*Term
	for changed {
		changed = false
		for i, p := range st.pc {
			if used[i] {
				continue
			}
			vs := c.termVars(p)
			hit := false
			for _, v := range vs {
				if want[v] {
					hit = true
					break
				}
			}
			if hit {
				used[i] = true
				changed = true
				out = append(out, p)
				for _, v := range vs {
					want[v] = true
				}
			}
		}
	}
	return out
}

func (c *Ctx) queryKey(ts []*Term) string {
	ids := make([]int, len(ts))
	for i, t := range ts {
		ids[i] = t.ID
	}
	sort.Ints(ids)
	var sb strings.Builder
	for _, i := range ids {
		fmt.Fprintf(&sb, "%d,", i)
	}
	return sb.String()
}

// solve decides satisfiability of the conjunction ts; returns a model when sat.
func (c *Ctx) solve(ts []*Term, timeoutMs int) (SatResult, *Model) {
	for _, t := range ts {
		if t.IsFalse() {
			return Unsat, nil
		}
	}
	key := c.queryKey(ts)
	if e, ok := c.satCache[key]; ok {
		globalStats.CacheHit++
		return e.r, e.m
	}
	vars, ufapps := Atoms(ts)
	script := c.tb.Script(ts, nil)
	var want []string
	for _, v := range vars {
		want = append(want, smtName(v.Name))
	}
	ufStart := len(want)
	// UF applications: ask for their values; args are evaluated from var values afterwards
	ufScript := c.tb.Script(nil, ufapps) // defines names for uf apps; reuse the same naming (tID)
	_ = ufScript
	for _, u := range ufapps {
		want = append(want, fmt.Sprintf("t%d", u.ID))
	}
	if c.cfg.DumpQueries != "" {
		c.dumpN++
	}
	tq := time.Now()
	if pd := os.Getenv("GOSMT_PREDUMP"); pd != "" {
		os.WriteFile(pd, []byte(script+"(check-sat)\n(get-value ("+strings.Join(want, " ")+"))\n"), 0o644)
	}
	r, vals, msg := c.solver.Check(script, timeoutMs, want)
	if ld := os.Getenv("GOSMT_LOGALL"); ld != "" {
		c.dumpN++
		os.WriteFile(fmt.Sprintf("%s/q_%05d_%s.smt2", ld, c.dumpN, r), []byte(script), 0o644)
	}
	if d := time.Since(tq); d > 500*time.Millisecond && c.cfg.Verbose {
		fmt.Printf("    slow query %.2fs (%s) terms=%d size=%d\n", d.Seconds(), r, len(ts), len(script))
		if sd := os.Getenv("GOSMT_SLOWDUMP"); sd != "" {
			c.dumpN++
			os.WriteFile(fmt.Sprintf("%s/slow_%d.smt2", sd, c.dumpN), []byte(script), 0o644)
		}
	}
	if r == Unknown && c.cfg.Verbose {
		fmt.Printf("    solver unknown: %s\n", msg)
	}
	var m *Model
	if r == Sat && vals != nil {
		m = &Model{Vars: map[string]uint64{}, UFs: map[string]map[string]uint64{}, UFDefault: map[string]uint64{}}
		for i, v := range vars {
			m.Vars[v.Name] = vals[i]
		}
		memo := map[int]uint64{}
		for i, u := range ufapps {
			args := make([]uint64, len(u.Args))
			for j, a := range u.Args {
				args[j] = c.tb.Eval(a, m, memo)
			}
			if m.UFs[u.Name] == nil {
				m.UFs[u.Name] = map[string]uint64{}
			}
			m.UFs[u.Name][ufKey(args)] = vals[ufStart+i]
			memo[u.ID] = vals[ufStart+i]
		}
	}
	c.satCache[key] = satEntry{r, m}
	return r, m
}

// mergeModel overlays b on a (b wins).
func mergeModel(a, b *Model) *Model {
	if a == nil {
		return b
	}
	if b == nil {
		return a
	}
	m := &Model{Vars: map[string]uint64{}, UFs: map[string]map[string]uint64{}, UFDefault: map[string]uint64{}}
	for _, src := range []*Model{a, b} {
		for k, v := range src.Vars {
			m.Vars[k] = v
		}
		for k, mm := range src.UFs {
			if m.UFs[k] == nil {
				m.UFs[k] = map[string]uint64{}
			}
			for kk, v := range mm {
				m.UFs[k][kk] = v
			}
		}
	}
	return m
}

// feasible decides whether pc ∧ cond is satisfiable. Unknown counts as feasible (path kept, state marked unsure).
// On sat the returned model satisfies pc ∧ cond (or nil if not available).
func (c *Ctx) feasible(st *State, cond *Term) (bool, *Model, bool) {
	if cond.IsTrue() {
		return true, st.model, false
	}
	if cond.IsFalse() {
		return false, nil, false
	}
	if st.model != nil {
		if c.tb.Eval(cond, st.model, map[int]uint64{}) == 1 {
			return true, st.model, false
		}
	}
	sl := c.slice(st, cond)
	ts := append(append([]*Term{}, sl...), cond)
	r, m := c.solve(ts, c.cfg.FeasTimeoutMs)
	switch r {
	case Unsat:
		return false, nil, false
	case Sat:
		if m != nil && st.model != nil && !st.pcUnsure {
			// combine: new values for the slice's variables, old values for the rest
			m = mergeModel(st.model, m)
			// validate
			ok := true
			memo := map[int]uint64{}
			for _, p := range st.pc {
				if c.tb.Eval(p, m, memo) != 1 {
					ok = false
					break
				}
			}
			if !ok || c.tb.Eval(cond, m, memo) != 1 {
				m = nil
			}
		} else if m != nil && len(sl) != len(st.pc) {
			m = nil
		}
		return true, m, false
	}
	return true, nil, true
}

// fullModel returns a model for the whole pc (plus extra), or nil.
func (c *Ctx) fullModel(st *State, extra *Term) (*Model, SatResult) {
	ts := append([]*Term{}, st.pc...)
	if extra != nil {
		ts = append(ts, extra)
	}
	r, m := c.solve(ts, c.cfg.VerdTimeoutMs)
	return m, r
}
