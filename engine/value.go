package main

// Value model of the symbolic executor.

import (
	"fmt"
	"go/types"
	"sort"

	"golang.org/x/tools/go/ssa"
)

// Value is one of: *Term (scalar), Ptr, *SliceV, *StructV, *SymArr, *ValArr, *StrV,
// *IfaceV, MapV, *FuncV, TupleV, *IterV, nil (no value).
type Value interface{}

// Sel selects a struct field (F>=0) or an array element (F==-1, index I).
type Sel struct {
	F int
	I *Term
}

// Ptr is a concrete pointer: heap object + path into its value tree. Obj==0 is nil.
type Ptr struct {
	Obj  int
	Path []Sel
}

func (p Ptr) IsNil() bool { return p.Obj == 0 }

func (p Ptr) Child(s Sel) Ptr {
	np := make([]Sel, len(p.Path)+1)
	copy(np, p.Path)
	np[len(p.Path)] = s
	return Ptr{p.Obj, np}
}

func ptrEqual(a, b Ptr) (eq bool, known bool) {
	if a.Obj != b.Obj {
		return false, true
	}
	if len(a.Path) != len(b.Path) {
		return false, true
	}
	for i := range a.Path {
		if a.Path[i].F != b.Path[i].F {
			return false, true
		}
		if a.Path[i].F == -1 {
			x, y := a.Path[i].I, b.Path[i].I
			if x == y {
				continue
			}
			if x.IsConst() && y.IsConst() {
				return false, true
			}
			return false, false
		}
	}
	return true, true
}

type SliceV struct {
	Arr Ptr // location of the backing array value (a *SymArr or *ValArr)
	Off *Term
	Len *Term
	Cap *Term
	Nil bool
}

type StructV struct {
	F []Value
}

// ValArr is an array of non-scalar values with concrete length.
type ValArr struct {
	E []Value
}

type StrV struct {
	Conc   bool
	S      string
	Bytes  []*Term // when !Conc && Opaque==0: concrete length, symbolic bytes (W=8)
	Opaque int     // >0: unknown content/length (formatting results)
}

type IfaceV struct {
	T types.Type // nil => nil interface
	V Value
}

type MapV struct {
	Obj int
}

type MapObj struct {
	Keys []interface{} // string or int64, insertion-independent sorted order
	M    map[interface{}]Value
}

func (m *MapObj) clone() *MapObj {
	n := &MapObj{Keys: append([]interface{}{}, m.Keys...), M: make(map[interface{}]Value, len(m.M))}
	for k, v := range m.M {
		n.M[k] = v
	}
	return n
}

func (m *MapObj) set(k interface{}, v Value) *MapObj {
	n := m.clone()
	if _, ok := n.M[k]; !ok {
		n.Keys = append(n.Keys, k)
		sort.Slice(n.Keys, func(i, j int) bool { return keyLess(n.Keys[i], n.Keys[j]) })
	}
	n.M[k] = v
	return n
}

func (m *MapObj) del(k interface{}) *MapObj {
	n := m.clone()
	if _, ok := n.M[k]; ok {
		delete(n.M, k)
		for i, kk := range n.Keys {
			if kk == k {
				n.Keys = append(n.Keys[:i], n.Keys[i+1:]...)
				break
			}
		}
	}
	return n
}

func keyLess(a, b interface{}) bool {
	switch x := a.(type) {
	case string:
		if y, ok := b.(string); ok {
			return x < y
		}
		return true
	case int64:
		if y, ok := b.(int64); ok {
			return x < y
		}
		return false
	}
	return false
}

type FuncV struct {
	Fn    *ssa.Function
	Binds []Value
	Bi    *ssa.Builtin
}

type TupleV []Value

// IterV is a map/string range iterator.
type IterV struct {
	Keys []interface{}
	Vals []Value
	Str  *StrV
	Pos  int
}

// ---------------------------------------------------------------------------
// Symbolic arrays of scalars: persistent write log.

type layerKind uint8

const (
	lWrite layerKind = iota
	lCopy
)

type layer struct {
	prev   *layer
	kind   layerKind
	idx    *Term
	val    *Term
	lo, n  *Term
	src    *SymArr
	srcOff *Term
	depth  int
}

type SymArr struct {
	W    int    // element width (0 = Bool)
	Len  *Term  // BV64
	Base string // "" => zero default, else UF name: elem = Base(idx)
	top  *layer
	// cache of constant-index reads (lazy, valid for this immutable snapshot)
	cache map[uint64]*Term
}

func (a *SymArr) depth() int {
	if a.top == nil {
		return 0
	}
	return a.top.depth
}

func (a *SymArr) Write(tb *TB, idx, val *Term) *SymArr {
	if val.W != a.W {
		panic(fmt.Sprintf("SymArr.Write width %d into %d", val.W, a.W))
	}
	// overwrite of the same (syntactic) index at the top: drop old layer
	top := a.top
	if top != nil && top.kind == lWrite && top.idx == idx {
		top = top.prev
	}
	d := 1
	if top != nil {
		d = top.depth + 1
	}
	return &SymArr{W: a.W, Len: a.Len, Base: a.Base, top: &layer{prev: top, kind: lWrite, idx: idx, val: val, depth: d}}
}

func (a *SymArr) CopyIn(tb *TB, lo, n *Term, src *SymArr, srcOff *Term) *SymArr {
	if n.IsConst() && n.Val == 0 {
		return a
	}
	if n.IsConst() && n.Val <= 16 {
		r := a
		vals := make([]*Term, n.Val)
		for i := uint64(0); i < n.Val; i++ {
			vals[i] = src.Read(tb, tb.Add(srcOff, tb.Const(64, i)))
		}
		for i := uint64(0); i < n.Val; i++ {
			r = r.Write(tb, tb.Add(lo, tb.Const(64, i)), vals[i])
		}
		return r
	}
	d := 1
	if a.top != nil {
		d = a.top.depth + 1
	}
	return &SymArr{W: a.W, Len: a.Len, Base: a.Base, top: &layer{prev: a.top, kind: lCopy, lo: lo, n: n, src: src, srcOff: srcOff, depth: d}}
}

// Read returns the element at idx (BV64 term).
func (a *SymArr) Read(tb *TB, idx *Term) *Term {
	if idx.IsConst() && a.cache != nil {
		if v, ok := a.cache[idx.Val]; ok {
			return v
		}
	}
	type pend struct{ c, v *Term }
	var ps []pend
	var res *Term
	for l := a.top; l != nil; l = l.prev {
		switch l.kind {
		case lWrite:
			c := tb.Eq(idx, l.idx)
			if c.IsTrue() {
				res = l.val
			} else if !c.IsFalse() {
				ps = append(ps, pend{c, l.val})
			}
		case lCopy:
			c := tb.And(tb.Ule(l.lo, idx), tb.Ult(tb.Sub(idx, l.lo), l.n))
			if c.IsFalse() {
				continue
			}
			v := l.src.Read(tb, tb.Add(l.srcOff, tb.Sub(idx, l.lo)))
			if c.IsTrue() {
				res = v
			} else {
				ps = append(ps, pend{c, v})
			}
		}
		if res != nil {
			break
		}
	}
	if res == nil {
		if a.Base == "" {
			res = tb.Const(a.W, 0)
		} else {
			res = tb.UF(a.Base, a.W, idx)
		}
	}
	for i := len(ps) - 1; i >= 0; i-- {
		res = tb.Ite(ps[i].c, ps[i].v, res)
	}
	if idx.IsConst() {
		if a.cache == nil {
			a.cache = map[uint64]*Term{}
		}
		a.cache[idx.Val] = res
	}
	return res
}

// ---------------------------------------------------------------------------
// Type helpers

func isScalarType(t types.Type) bool {
	switch u := t.Underlying().(type) {
	case *types.Basic:
		return u.Info()&(types.IsInteger|types.IsBoolean|types.IsFloat) != 0 || u.Kind() == types.UnsafePointer
	}
	return false
}

func typeWidth(t types.Type) int {
	b, ok := t.Underlying().(*types.Basic)
	if !ok {
		panic(fmt.Sprintf("typeWidth of non-basic %v", t))
	}
	switch b.Kind() {
	case types.Bool, types.UntypedBool:
		return 0
	case types.Int8, types.Uint8:
		return 8
	case types.Int16, types.Uint16:
		return 16
	case types.Int32, types.Uint32, types.UntypedRune, types.Float32:
		return 32
	case types.Int, types.Uint, types.Int64, types.Uint64, types.Uintptr, types.UntypedInt, types.Float64, types.UntypedFloat, types.UnsafePointer:
		return 64
	}
	panic(fmt.Sprintf("typeWidth: unsupported basic %v", t))
}

func isSigned(t types.Type) bool {
	b, ok := t.Underlying().(*types.Basic)
	return ok && b.Info()&types.IsInteger != 0 && b.Info()&types.IsUnsigned == 0
}

func isFloat(t types.Type) bool {
	b, ok := t.Underlying().(*types.Basic)
	return ok && b.Info()&types.IsFloat != 0
}

func isString(t types.Type) bool {
	b, ok := t.Underlying().(*types.Basic)
	return ok && b.Info()&types.IsString != 0
}

func (tb *TB) zero(t types.Type) Value {
	switch u := t.Underlying().(type) {
	case *types.Basic:
		if u.Info()&types.IsString != 0 {
			return &StrV{Conc: true}
		}
		if u.Kind() == types.UntypedNil {
			return nil
		}
		return tb.Const(typeWidth(t), 0)
	case *types.Pointer:
		return Ptr{}
	case *types.Slice:
		z := tb.Const(64, 0)
		return &SliceV{Nil: true, Off: z, Len: z, Cap: z}
	case *types.Map:
		return MapV{}
	case *types.Interface:
		return &IfaceV{}
	case *types.Signature:
		return (*FuncV)(nil)
	case *types.Struct:
		s := &StructV{F: make([]Value, u.NumFields())}
		for i := range s.F {
			s.F[i] = tb.zero(u.Field(i).Type())
		}
		return s
	case *types.Array:
		if isScalarType(u.Elem()) {
			return &SymArr{W: typeWidth(u.Elem()), Len: tb.Const(64, uint64(u.Len()))}
		}
		va := &ValArr{E: make([]Value, u.Len())}
		for i := range va.E {
			va.E[i] = tb.zero(u.Elem())
		}
		return va
	case *types.Chan:
		return nil
	case *types.Tuple:
		tv := make(TupleV, u.Len())
		for i := range tv {
			tv[i] = tb.zero(u.At(i).Type())
		}
		return tv
	}
	panic(fmt.Sprintf("zero: unsupported type %v", t))
}
