package main

// C07: hand-off protocol as a solver-decided bounded transition system.
// Per task, the paths explored in protocol mode (exec of the real encode/decode with the counter value unknown)
// are merged into a guarded tree automaton; N automata are composed with one symbolic scheduler variable per step.

import (
	"fmt"
	"os"
	"path/filepath"
	"sort"
	"strings"
	"time"
)

type pEdge struct {
	guard *Term
	to    *pNode
}

type pLeaf struct {
	guard    *Term
	err, eos bool
}

type pNode struct {
	leaves []pLeaf
	id    int
	ev    protoStep
	edges []*pEdge
	leaf  bool
	err   bool // result: task failed
	eos   bool // result: end of stream (decode)
}

type pTree struct {
	task  int
	root  *pNode
	nodes []*pNode
	depth int
}

func evSig(e protoStep) string {
	id := func(t *Term) int {
		if t == nil {
			return 0
		}
		return t.ID
	}
	return fmt.Sprintf("%s|%d|%d|%d|%s", e.Kind, id(e.A), id(e.B), id(e.Var), e.Site)
}

func buildTree(tb *TB, task int, paths []*PathResult) *pTree {
	tr := &pTree{task: task}
	newNode := func(ev protoStep) *pNode {
		n := &pNode{id: len(tr.nodes), ev: ev}
		tr.nodes = append(tr.nodes, n)
		return n
	}
	tr.root = newNode(protoStep{Kind: "start"})
	for _, p := range paths {
		cur := tr.root
		prevLen := 0
		d := 0
		// Reduction (sound for the obligations checked): wg.Done and the result record are local and are fused
		// with the preceding visible event; of a run of consecutive shared-stream operations only the first and
		// the last are kept (an interleaving that breaks exclusion/order between two middle operations also
		// breaks it between the first and the last one).
		var steps []protoStep
		for k, s := range p.Proto {
			if s.Kind == "done" {
				continue
			}
			if s.Kind == "io" && k > 0 && k+1 < len(p.Proto) && p.Proto[k-1].Kind == "io" && p.Proto[k+1].Kind == "io" {
				continue
			}
			steps = append(steps, s)
		}
		for _, s := range steps {
			if s.Kind == "result" {
				// the task stops here: remember under which branch decisions, and with which outcome
				g := tb.True
				for _, c := range p.PC[prevLen:s.PcLen] {
					g = tb.And(g, c)
				}
				dup := false
				for _, lf := range cur.leaves {
					if lf.guard == g {
						dup = true
					}
				}
				if !dup {
					cur.leaves = append(cur.leaves, pLeaf{guard: g, err: s.A.IsConst() && s.A.Val == 1, eos: s.B.IsConst() && s.B.Val == 1})
				}
				cur.leaf = true
				break
			}
			g := tb.True
			for _, c := range p.PC[prevLen:s.PcLen] {
				g = tb.And(g, c)
			}
			prevLen = s.PcLen
			var next *pNode
			for _, e := range cur.edges {
				if e.guard == g && evSig(e.to.ev) == evSig(s) {
					next = e.to
					break
				}
			}
			if next == nil {
				next = newNode(s)
				cur.edges = append(cur.edges, &pEdge{guard: g, to: next})
			}
			cur = next
			d++
		}
		if d > tr.depth {
			tr.depth = d
		}
	}
	tr.minimise()
	return tr
}

// minimise merges isomorphic sub-automata (same event, same guarded futures) bottom-up and renumbers the nodes.
func (tr *pTree) minimise() {
	canon := map[string]*pNode{}
	var rec func(n *pNode) (*pNode, string)
	rec = func(n *pNode) (*pNode, string) {
		var parts []string
		for _, e := range n.edges {
			ch, k := rec(e.to)
			e.to = ch
			parts = append(parts, fmt.Sprintf("%d>%s", e.guard.ID, k))
		}
		sort.Strings(parts)
		// distinct edges only
		var edges []*pEdge
		seen := map[string]bool{}
		for _, e := range n.edges {
			k := fmt.Sprintf("%d>%p", e.guard.ID, e.to)
			if !seen[k] {
				seen[k] = true
				edges = append(edges, e)
			}
		}
		n.edges = edges
		lk := ""
		for _, lf := range n.leaves {
			lk += fmt.Sprintf("L%d%v%v", lf.guard.ID, lf.err, lf.eos)
		}
		key := evSig(n.ev) + "|" + lk + "{" + strings.Join(parts, ";") + "}"
		if c, ok := canon[key]; ok {
			return c, key
		}
		canon[key] = n
		return n, key
	}
	rec(tr.root)
	// renumber reachable nodes
	var nodes []*pNode
	seen := map[*pNode]bool{}
	var walk func(n *pNode)
	walk = func(n *pNode) {
		if seen[n] {
			return
		}
		seen[n] = true
		n.id = len(nodes)
		nodes = append(nodes, n)
		for _, e := range n.edges {
			walk(e.to)
		}
	}
	walk(tr.root)
	tr.nodes = nodes
}

type protoReport struct {
	Side      string           `json:"side"`
	N         int              `json:"tasks"`
	Nodes     int              `json:"automaton_nodes"`
	Edges     int              `json:"automaton_edges"`
	Depth     int              `json:"unrolling_depth"`
	Results   map[string]string `json:"obligations"`
	Seconds   map[string]float64 `json:"solver_seconds"`
	Schedules map[string][]string `json:"counterexample_schedules,omitempty"`
	Paths     int              `json:"task_paths_explored"`
	Problems  []string         `json:"problems,omitempty"`
}

// extractTrees runs the task harness for ids 1..N in ONE context (shared term table).
func extractTrees(l *Loaded, side string, N int, stubs map[string]uint64) (*Ctx, []*pTree, int, []string) {
	cfg := Config{Unwind: 64, CasesAsForks: true, StubConst: stubs, Params: map[string]int{}}
	c := NewCtx(l.prog, cfg)
	fn := l.pkgs["io"].Func("H07_" + side + "_task")
	var trees []*pTree
	var problems []string
	total := 0
	for id := 1; id <= N; id++ {
		c.cfg.Params["id"] = id
		c.cfg.NamePrefix = fmt.Sprintf("T%d.", id)
		st := &State{heap: map[int]Value{}, prefix: c.cfg.NamePrefix}
		c.work, c.results = nil, nil
		func() {
			defer func() {
				if r := recover(); r != nil {
					if u, ok := r.(unsupported); ok {
						problems = append(problems, "unsupported: "+u.msg)
						return
					}
					panic(r)
				}
			}()
			c.pushFrame(st, fn, nil, nil, -1)
			c.Run(st)
		}()
		var ok []*PathResult
		for _, r := range c.results {
			switch r.Outcome {
			case OutDone:
				ok = append(ok, r)
			case OutInfeasible:
			default:
				problems = append(problems, fmt.Sprintf("task %d path outcome %s %s %s", id, r.Outcome, r.Label, r.Msg))
			}
		}
		total += len(ok)
		trees = append(trees, buildTree(c.tb, id-1, ok))
	}
	return c, trees, total, problems
}

// bmc builds the transition system and checks the obligations.
func protoBMC(c *Ctx, side string, trees []*pTree, rep *protoReport, timeoutMs int) {
	tb := c.tb
	N := len(trees)
	D := 0
	for _, tr := range trees {
		D += tr.depth
		rep.Nodes += len(tr.nodes)
		for _, n := range tr.nodes {
			rep.Edges += len(n.edges)
		}
	}
	D++ // one extra step so that a deadlocked/idle step is observable
	rep.Depth = D
	w8 := func(v int) *Term { return tb.Const(8, uint64(v)) }
	// Functional unrolling: the state at step t+1 is a TERM over the scheduler choices, the environment (fault)
	// variables and the load/CAS result variables; only the scheduler is constrained per step.
	ctr := make([]*Term, D+1)
	sched := make([]*Term, D)
	io := make([]*Term, D) // task doing a shared-stream operation at step t (N = none)
	pos := make([][]*Term, N)
	for t := 0; t < D; t++ {
		sched[t] = tb.Var(fmt.Sprintf("sched@%d", t), 8)
	}
	ctr[0] = tb.Const(32, 0)
	for i := range trees {
		pos[i] = make([]*Term, D+1)
		pos[i][0] = w8(0)
	}
	var base []*Term
	for _, tr := range trees {
		// environment choices (fault placement) range over the explored cases only
		some := tb.False
		for _, e := range tr.root.edges {
			some = tb.Or(some, e.guard)
		}
		base = append(base, some)
	}
	allDone := make([]*Term, D+1)
	doneAt := func(t int) *Term {
		ad := tb.True
		for i, tr := range trees {
			leaf := tb.False
			for _, n := range tr.nodes {
				for _, lf := range n.leaves {
					leaf = tb.Or(leaf, tb.And(tb.Eq(pos[i][t], w8(n.id)), lf.guard))
				}
			}
			ad = tb.And(ad, leaf)
		}
		return ad
	}
	for t := 0; t < D; t++ {
		allDone[t] = doneAt(t)
		anyEn := tb.False
		nextCtr := ctr[t]
		ioT := w8(N)
		for i, tr := range trees {
			en := tb.False
			np := pos[i][t]
			nc := ctr[t]
			isIO := tb.False
			for _, x := range tr.nodes {
				for _, e := range x.edges {
					y := e.to
					g := tb.And(tb.Eq(pos[i][t], w8(x.id)), e.guard)
					if y.ev.Kind == "load" {
						// the load fires only if the value it would see lets the task progress (failed polls are stutter steps)
						some := tb.False
						for _, e2 := range y.edges {
							some = tb.Or(some, tb.Subst(e2.guard, map[*Term]*Term{y.ev.Var: ctr[t]}, map[*Term]*Term{}))
						}
						for _, lf := range y.leaves {
							some = tb.Or(some, tb.Subst(lf.guard, map[*Term]*Term{y.ev.Var: ctr[t]}, map[*Term]*Term{}))
						}
						g = tb.And(g, some)
					}
					en = tb.Or(en, g)
					np = tb.Ite(g, w8(y.id), np)
					fire := tb.And(tb.Eq(sched[t], w8(i)), g)
					switch y.ev.Kind {
					case "load":
						base = append(base, tb.Implies(fire, tb.Eq(y.ev.Var, ctr[t])))
					case "store":
						nc = tb.Ite(g, y.ev.A, nc)
					case "cas":
						hit := tb.Eq(ctr[t], y.ev.A)
						base = append(base, tb.Implies(fire, tb.Eq(y.ev.Var, hit)))
						nc = tb.Ite(g, tb.Ite(hit, y.ev.B, ctr[t]), nc)
					case "io":
						isIO = tb.Or(isIO, g)
					}
				}
			}
			sel := tb.Eq(sched[t], w8(i))
			base = append(base, tb.Implies(sel, en))
			anyEn = tb.Or(anyEn, en)
			pos[i][t+1] = tb.Ite(sel, np, pos[i][t])
			nextCtr = tb.Ite(sel, nc, nextCtr)
			ioT = tb.Ite(tb.And(sel, isIO), w8(i), ioT)
		}
		// idle step only when nothing is enabled; scheduler index in range
		base = append(base, tb.Ule(sched[t], w8(N)))
		base = append(base, tb.Implies(tb.Eq(sched[t], w8(N)), tb.Not(anyEn)))
		ctr[t+1] = nextCtr
		io[t] = ioT
	}
	allDone[D] = doneAt(D)
	// helper predicates over the io log
	seenBefore := func(i, t int) *Term {
		r := tb.False
		for u := 0; u < t; u++ {
			r = tb.Or(r, tb.Eq(io[u], w8(i)))
		}
		return r
	}
	seenAfter := func(i, t int) *Term {
		r := tb.False
		for u := t + 1; u < D; u++ {
			r = tb.Or(r, tb.Eq(io[u], w8(i)))
		}
		return r
	}
	obligations := map[string]*Term{}
	// P1 exclusion
	v1 := tb.False
	for t := 0; t < D; t++ {
		for i := 0; i < N; i++ {
			for j := 0; j < N; j++ {
				if i != j {
					v1 = tb.Or(v1, tb.And(tb.Eq(io[t], w8(j)), tb.And(seenBefore(i, t), seenAfter(i, t))))
				}
			}
		}
	}
	obligations["P1-exclusive-access"] = v1
	// P2 order
	v2 := tb.False
	for t := 0; t < D; t++ {
		for i := 0; i < N; i++ {
			for j := i + 1; j < N; j++ {
				v2 = tb.Or(v2, tb.And(tb.Eq(io[t], w8(i)), seenBefore(j, t)))
			}
		}
	}
	obligations["P2-increasing-block-order"] = v2
	// P3 deadlock: an idle step while some task has not finished
	v3 := tb.False
	for t := 0; t < D; t++ {
		v3 = tb.Or(v3, tb.And(tb.Eq(sched[t], w8(N)), tb.Not(allDone[t])))
	}
	obligations["P3-no-deadlock-every-task-finishes"] = v3
	// completeness of the bound: at step D everything has terminated (else the unrolling is too short)
	obligations["P0-bound-is-complete"] = tb.Not(tb.Or(allDone[D], v3))
	// P5: a failed task (or end of stream on the decode side) leaves the counter at the cancel value
	bad := tb.False
	for i, tr := range trees {
		for _, n := range tr.nodes {
			for _, lf := range n.leaves {
				if lf.err || lf.eos {
					bad = tb.Or(bad, tb.And(tb.Eq(pos[i][D], w8(n.id)), lf.guard))
				}
			}
		}
	}
	obligations["P5-failure-leaves-cancel-marker"] = tb.And(allDone[D], tb.And(bad, tb.Ne(ctr[D], tb.Const(32, 0xFFFFFFFF))))
	// P6: all tasks fine => counter advanced by N
	good := tb.True
	for i, tr := range trees {
		g := tb.False
		for _, n := range tr.nodes {
			for _, lf := range n.leaves {
				if !lf.err && !lf.eos {
					g = tb.Or(g, tb.And(tb.Eq(pos[i][D], w8(n.id)), lf.guard))
				}
			}
		}
		good = tb.And(good, g)
		_ = i
	}
	obligations["P6-success-advances-counter-by-N"] = tb.And(allDone[D], tb.And(good, tb.Ne(ctr[D], tb.Const(32, uint64(N)))))
	// reachability witness (vacuity guard): some execution completes with all tasks fine
	witness := tb.And(allDone[D], good)
	names := make([]string, 0, len(obligations))
	for k := range obligations {
		names = append(names, k)
	}
	sort.Strings(names)
	rep.Results = map[string]string{}
	rep.Seconds = map[string]float64{}
	rep.Schedules = map[string][]string{}
	t0 := time.Now()
	r, _ := c.solve(append(append([]*Term{}, base...), witness), timeoutMs)
	rep.Seconds["W-reachability-witness"] = time.Since(t0).Seconds()
	if r == Sat {
		rep.Results["W-reachability-witness"] = "sat (system not vacuous)"
	} else {
		rep.Results["W-reachability-witness"] = "NOT satisfiable: " + r.String()
		rep.Problems = append(rep.Problems, side+": transition system has no complete good run (vacuous)")
	}
	for _, name := range names {
		t0 := time.Now()
		if d := os.Getenv("PROTO_DUMP"); d != "" {
			os.WriteFile(fmt.Sprintf("%s/%s_N%d_%s.smt2", d, side, N, name), []byte(c.tb.Script(append(append([]*Term{}, base...), obligations[name]), nil)+"(check-sat)\n"), 0o644)
		}
		r, m := c.solve(append(append([]*Term{}, base...), obligations[name]), timeoutMs)
		rep.Seconds[name] = time.Since(t0).Seconds()
		switch r {
		case Unsat:
			rep.Results[name] = "holds (violation unsat)"
		case Sat:
			rep.Results[name] = "VIOLATED"
			rep.Schedules[name] = decodeSchedule(c, trees, m, sched, ctr, pos, D)
		default:
			rep.Results[name] = "undecided"
			rep.Problems = append(rep.Problems, fmt.Sprintf("%s N=%d %s undecided", side, N, name))
		}
	}
}

func decodeSchedule(c *Ctx, trees []*pTree, m *Model, sched, ctr []*Term, pos [][]*Term, D int) []string {
	var out []string
	if m == nil {
		return out
	}
	memo := map[int]uint64{}
	N := len(trees)
	for t := 0; t < D; t++ {
		s := int(c.tb.Eval(sched[t], m, memo))
		if s >= N {
			out = append(out, fmt.Sprintf("t=%d idle (ctr=%d)", t, int32(c.tb.Eval(ctr[t], m, memo))))
			continue
		}
		nid := int(c.tb.Eval(pos[s][t+1], m, memo))
		ev := trees[s].nodes[nid].ev
		desc := ev.Kind
		switch ev.Kind {
		case "store":
			desc = fmt.Sprintf("Store(%d)", int32(c.tb.Eval(ev.A, m, memo)))
		case "cas":
			desc = fmt.Sprintf("CAS(%d->%d)=%v", int32(c.tb.Eval(ev.A, m, memo)), int32(c.tb.Eval(ev.B, m, memo)), c.tb.Eval(ev.Var, m, memo) == 1)
		case "load":
			desc = fmt.Sprintf("Load=%d", int32(c.tb.Eval(ctr[t], m, memo)))
		case "io":
			desc = fmt.Sprintf("shared-stream-op#%d", c.tb.Eval(ev.A, m, memo))
		case "result":
			desc = fmt.Sprintf("result err=%d eos=%d", c.tb.Eval(ev.A, m, memo), c.tb.Eval(ev.B, m, memo))
		}
		out = append(out, fmt.Sprintf("t=%d task(block %d): %s -> ctr=%d", t, s+1, desc, int32(c.tb.Eval(ctr[t+1], m, memo))))
	}
	return out
}

// runProto is the C07 check.
func runProto(prop, tier string, seed int64) int {
	t0 := time.Now()
	reg, err := loadRegistry()
	if err != nil {
		fmt.Println("ERROR:", err)
		return 2
	}
	ps := reg[prop]
	evPath := filepath.Join(outDir, "evidence", prop+".json")
	scratch, _ := os.MkdirTemp("", "gosmt-*")
	defer os.RemoveAll(scratch)
	l, err := loadProgram(ps.Packages, scratch)
	if err != nil {
		fmt.Println("ERROR: cannot load /repo:", err)
		return 2
	}
	maxN := 3
	if tier == "thorough" {
		maxN = 4
	}
	known := loadKnown()
	var reports []*protoReport
	var problems, knownSeen []string
	nviol := 0
	exit := 0
	type job struct {
		side string
		n    int
	}
	var jobs []job
	for _, side := range []string{"encode", "decode"} {
		for n := 2; n <= maxN; n++ {
			jobs = append(jobs, job{side, n})
		}
	}
	res := make([]*protoReport, len(jobs))
	done := make(chan int, len(jobs))
	for k, j := range jobs {
		go func(k int, j job) {
			rep := &protoReport{Side: j.side, N: j.n}
			c, trees, np, probs := extractTrees(l, j.side, j.n, map[string]uint64{"internal.GetMagicType": 0})
			rep.Paths = np
			rep.Problems = append(rep.Problems, probs...)
			protoBMC(c, j.side, trees, rep, 600000)
			c.Close()
			res[k] = rep
			done <- k
		}(k, j)
	}
	for range jobs {
		<-done
	}
	states, transitions := 0, 0
	var samples []any
	validated := 0
	for _, rep := range res {
		reports = append(reports, rep)
		states += rep.Nodes
		transitions += rep.Edges
		fmt.Printf("[%s %s] %s N=%d: automata %d nodes/%d edges from %d task paths, unrolled %d steps\n", prop, tier, rep.Side, rep.N, rep.Nodes, rep.Edges, rep.Paths, rep.Depth)
		var ks []string
		for k := range rep.Results {
			ks = append(ks, k)
		}
		sort.Strings(ks)
		for _, k := range ks {
			fmt.Printf("    %-40s %s (%.1fs)\n", k, rep.Results[k], rep.Seconds[k])
		}
		problems = append(problems, rep.Problems...)
		for name, schedule := range rep.Schedules {
			if len(samples) < 4 {
				samples = append(samples, map[string]any{"side": rep.Side, "N": rep.N, "obligation": name, "schedule": schedule})
			}
			// native confirmation through the timing-forced twin, if one exists for this obligation
			v := &Violation{Harness: "H07_" + rep.Side, Kind: "assert", Label: name, Inputs: map[string]uint64{"N": uint64(rep.N)}}
			twin := ""
			twinLabel := "api-lost-cancel"
			if rep.Side == "decode" && name == "P5-failure-leaves-cancel-marker" {
				twin = "H07_lostcancel_api"
			}
			if rep.Side == "encode" && (name == "P5-failure-leaves-cancel-marker" || name == "P3-no-deadlock-every-task-finishes") {
				twin = "H07_encode_lostcancel_api"
				twinLabel = "api-encode-lost-cancel"
			}
			if twin == "" {
				problems = append(problems, fmt.Sprintf("%s N=%d %s: counterexample schedule found but no native twin to confirm it", rep.Side, rep.N, name))
				fmt.Printf("    UNCONFIRMED schedule for %s (no native twin)\n", name)
				continue
			}
			dir := filepath.Join(outDir, "replays", prop, fmt.Sprintf("%s_N%d_%s", rep.Side, rep.N, name))
			os.RemoveAll(dir)
			spec := HarnessSpec{Pkg: "io", Func: twin}
			v.Label = twinLabel
			prepareReplay(dir, spec, v)
			writeJSON(filepath.Join(dir, "schedule.json"), schedule)
			conf, out := runReplay(dir)
			validated++
			if conf != "yes" {
				os.RemoveAll(dir)
				problems = append(problems, fmt.Sprintf("%s N=%d %s: schedule not reproduced natively (%s)", rep.Side, rep.N, name, firstLine(out)))
				fmt.Printf("    UNCONFIRMED schedule for %s: %s\n", name, firstLine(out))
				continue
			}
			v.Label = name
			if kf := matchKnown(known, prop, v); kf != nil {
				msg := fmt.Sprintf("KNOWN-FINDING: property=%s %s: %s", prop, kf.ID, kf.What)
				if !contains(knownSeen, msg) {
					knownSeen = append(knownSeen, msg)
					fmt.Println(msg)
				}
				os.RemoveAll(dir)
			} else {
				nviol++
				exit = 1
				fmt.Printf("VIOLATION property=%s replay=%s\n", prop, dir)
				fmt.Printf("    %s N=%d obligation %s\n", rep.Side, rep.N, name)
			}
		}
	}
	if len(samples) == 0 {
		for _, rep := range res {
			samples = append(samples, map[string]any{"side": rep.Side, "N": rep.N, "obligations": rep.Results})
			if len(samples) >= 2 {
				break
			}
		}
	}
	cov := map[string]any{"states": states, "transitions": transitions, "traces_validated_against_impl": validated, "samples": samples,
		"explanation": ps.Explanation, "bounds": ps.Bounds, "runs": reports, "problems": problems, "known_findings_seen": knownSeen,
		"outside_claim": ps.Outside, "stubs": ps.Stubs, "repo_source_hash": repoHash(ps.Packages),
		"technique": "guarded task automata extracted by symbolic execution of the real encode/decode SSA in protocol mode; bounded transition system with solver-chosen schedule and fault placement decided by z3",
		"solver": map[string]any{"queries": globalStats.Queries, "solver_seconds": float64(globalStats.Nanos) / 1e9}}
	ev := map[string]any{"property_id": prop, "tier": tier, "seed": seed, "level": ps.Level, "coverage": cov, "assumptions": ps.Assumptions,
		"wall_s": time.Since(t0).Seconds(), "violations": nviol}
	writeJSON(evPath, ev)
	fmt.Printf("[%s %s] done in %.1fs: violations=%d known=%d problems=%d\n", prop, tier, time.Since(t0).Seconds(), nviol, len(knownSeen), len(problems))
	_ = strings.Join
	return exit
}
