package main

import (
	"fmt"
	"go/types"
	"strings"

	"golang.org/x/tools/go/ssa"
)

const kanziPrefix = "github.com/flanglet/kanzi-go/v2"

func (c *Ctx) opaqueStr() *StrV {
	c.opaque++
	return &StrV{Opaque: c.opaque}
}

func (c *Ctx) mkError(st *State, s *StrV) Value {
	obj := c.newObj(st, &StructV{F: []Value{s}})
	return &IfaceV{T: c.errStrT, V: Ptr{Obj: obj}}
}

func (st *State) uniq(name string) string {
	if st.names == nil {
		st.names = map[string]int{}
	}
	n := st.names[name]
	st.names[name] = n + 1
	if n == 0 {
		return st.prefix + name
	}
	return fmt.Sprintf("%s%s#%d", st.prefix, name, n)
}

func concStr(v Value) string {
	s, ok := v.(*StrV)
	if !ok || !s.Conc {
		unsup("vh name/label must be a constant string")
	}
	return s.S
}

// selfHash is the deterministic input generator of the translator self-check (same function in vh.go.tmpl).
func selfHash(name string, seed uint64) uint64 {
	h := uint64(14695981039346656037) ^ seed*0x9E3779B97F4A7C15
	for i := 0; i < len(name); i++ {
		h ^= uint64(name[i])
		h *= 1099511628211
	}
	h ^= h >> 29
	h *= 0xBF58476D1CE4E5B9
	h ^= h >> 32
	return h
}

func (c *Ctx) newInput(st *State, name string, w int, kind string) *Term {
	key := st.uniq(name)
	if c.cfg.SelfSeed != 0 {
		v := selfHash(key, c.cfg.SelfSeed)
		if w == 0 {
			return c.tb.Bool(v&1 == 1)
		}
		return c.tb.Const(w, v)
	}
	t := c.tb.Var(key, w)
	st.inputs = append(st.inputs, inputRec{Key: key, T: t, Kind: kind})
	return t
}

// intrinsic handles vh* harness primitives, environment stubs and body-less functions.
func (c *Ctx) intrinsic(st *State, fn *ssa.Function, args []Value) (intrRes, bool) {
	tb := c.tb
	done := func(v Value) (intrRes, bool) { return intrRes{false, v}, true }
	name := fn.Name()
	if strings.HasPrefix(name, "vh") && fn.Pkg != nil && strings.HasPrefix(fn.Pkg.Pkg.Path(), kanziPrefix) {
		switch name {
		case "vhU64", "vhInt", "vhUint", "vhI64":
			return done(c.newInput(st, concStr(args[0]), 64, name))
		case "vhU32", "vhI32":
			return done(c.newInput(st, concStr(args[0]), 32, name))
		case "vhU16":
			return done(c.newInput(st, concStr(args[0]), 16, name))
		case "vhU8":
			return done(c.newInput(st, concStr(args[0]), 8, name))
		case "vhBool":
			return done(c.newInput(st, concStr(args[0]), 0, name))
		case "vhBytes":
			n := args[1].(*Term)
			if !n.IsConst() {
				unsup("vhBytes with symbolic length (use vhArb)")
			}
			key := st.uniq(concStr(args[0]))
			arr := &SymArr{W: 8, Len: n}
			for i := uint64(0); i < n.Val; i++ {
				k := fmt.Sprintf("%s[%d]", key, i)
				t := tb.Var(k, 8)
				if c.cfg.SelfSeed != 0 {
					t = tb.Const(8, selfHash(k, c.cfg.SelfSeed))
				}
				st.inputs = append(st.inputs, inputRec{Key: k, T: t, Kind: "vhBytes"})
				arr = arr.Write(tb, tb.Const(64, i), t)
			}
			id := c.newObj(st, arr)
			return done(&SliceV{Arr: Ptr{Obj: id}, Off: tb.Const(64, 0), Len: n, Cap: n})
		case "vhArb":
			n := args[1].(*Term)
			key := st.uniq(concStr(args[0]))
			if !c.forkPanic(st, tb.Sle(tb.Const(64, 0), n), "vhArb: negative length") {
				return intrRes{true, nil}, true
			}
			arr := &SymArr{W: 8, Len: n, Base: key}
			if c.cfg.SelfSeed != 0 {
				if !n.IsConst() {
					unsup("selfcheck: vhArb with symbolic length")
				}
				arr = &SymArr{W: 8, Len: n}
				for i := uint64(0); i < n.Val; i++ {
					arr = arr.Write(tb, tb.Const(64, i), tb.Const(8, selfHash(fmt.Sprintf("%s[%d]", key, i), c.cfg.SelfSeed)))
				}
			}
			st.inputs = append(st.inputs, inputRec{Key: key, UF: key, Len: n, Kind: "vhArb"})
			id := c.newObj(st, arr)
			return done(&SliceV{Arr: Ptr{Obj: id}, Off: tb.Const(64, 0), Len: n, Cap: n})
		case "vhAssume":
			cond := args[0].(*Term)
			ok, m, unk := c.feasible(st, cond)
			if !ok {
				c.finish(st, &PathResult{Outcome: OutInfeasible})
				return intrRes{true, nil}, true
			}
			st.addPC(c, cond)
			if m != nil {
				st.model = m
			}
			st.pcUnsure = st.pcUnsure || unk
			return done(nil)
		case "vhAssert":
			c.vhAssert(st, args[0].(*Term), concStr(args[1]))
			if st.done != nil {
				return intrRes{true, nil}, true
			}
			return done(nil)
		case "vhOut":
			t := args[1].(*Term)
			if !t.IsConst() {
				unsup("selfcheck: vhOut of a non-constant value")
			}
			st.notes = append(st.notes, fmt.Sprintf("OUT %s=%d", concStr(args[0]), t.Val))
			return done(nil)
		case "vhReach":
			tag := concStr(args[0])
			st.reach = append(st.reach, tag)
			c.reachAll[tag] = true
			return done(nil)
		case "vhNote":
			t := args[1].(*Term)
			st.notes = append(st.notes, fmt.Sprintf("%s=%s", concStr(args[0]), c.tb.Show(t)))
			return done(nil)
		case "vhCase":
			nm := concStr(args[0])
			lo, hi := args[1].(*Term), args[2].(*Term)
			if v, ok := c.cfg.Cases[nm]; ok {
				return done(tb.Const(64, uint64(v)))
			}
			if c.cfg.CasesAsForks {
				// single-context mode (protocol extraction): the case variable is an ordinary input that forks
				key := c.cfg.NamePrefix + "case:" + nm
				x := tb.Var(key, 64)
				if k, ok := st.subst[x.ID]; ok {
					return done(k)
				}
				var vals []uint64
				for v := sext64(lo.Val, 64); v <= sext64(hi.Val, 64); v++ {
					vals = append(vals, uint64(v))
				}
				c.forkValues(st, x, vals)
				return intrRes{true, nil}, true
			}
			c.needCase = &caseReq{Name: nm, Lo: sext64(lo.Val, 64), Hi: sext64(hi.Val, 64)}
			c.finish(st, &PathResult{Outcome: OutInfeasible, Msg: "case discovery"})
			return intrRes{true, nil}, true
		case "vhSelU64", "vhSelInt", "vhSelU8":
			cnd, a, b := args[0].(*Term), args[1].(*Term), args[2].(*Term)
			return done(tb.Ite(cnd, a, b))
		case "vhAnd":
			return done(tb.And(args[0].(*Term), args[1].(*Term)))
		case "vhOr":
			return done(tb.Or(args[0].(*Term), args[1].(*Term)))
		case "vhImplies":
			return done(tb.Implies(args[0].(*Term), args[1].(*Term)))
		case "vhProtoCounter":
			if st.hooks == nil {
				st.hooks = map[string]Value{}
			}
			st.hooks["proto"] = args[0]
			return done(nil)
		case "vhEvent":
			st.proto = append(st.proto, protoStep{Kind: concStr(args[0]), A: args[1].(*Term), B: args[2].(*Term), PcLen: len(st.pc)})
			return done(nil)
		case "vhParam":
			nm := concStr(args[0])
			if v, ok := c.cfg.Params[nm]; ok {
				return done(tb.Const(64, uint64(int64(v))))
			}
			return done(args[1])
		case "vhSplit":
			x := args[0].(*Term)
			if x.IsConst() {
				return done(x)
			}
			if k, ok := st.subst[x.ID]; ok {
				return done(k)
			}
			vals := c.concretize(st, x, 4096)
			c.forkValues(st, x, vals)
			// re-executed: next time subst hits
			return intrRes{true, nil}, true
		case "vhStrCase":
			canon := concStr(args[1])
			key := st.uniq(concStr(args[0]))
			bs := make([]*Term, len(canon))
			for i := 0; i < len(canon); i++ {
				ch := canon[i]
				if (ch >= 'A' && ch <= 'Z') || (ch >= 'a' && ch <= 'z') {
					k := fmt.Sprintf("%s.lc[%d]", key, i)
					b := tb.Var(k, 0)
					st.inputs = append(st.inputs, inputRec{Key: k, T: b, Kind: "vhStrCase"})
					up := uint64(ch &^ 0x20)
					bs[i] = tb.Ite(b, tb.Const(8, up|0x20), tb.Const(8, up))
				} else {
					bs[i] = tb.Const(8, uint64(ch))
				}
			}
			return done(c.mkStr(bs))
		case "vhConcreteStr":
			// returns true if the string argument is fully concrete (engine side only; native: true)
			s := args[0].(*StrV)
			return done(tb.Bool(s.Conc))
		}
		if fn.Blocks == nil {
			unsup("unknown vh primitive %s", name)
		}
		return intrRes{}, false
	}
	if fn.Synthetic == "package initializer" {
		if fn.Pkg != nil && strings.HasPrefix(fn.Pkg.Pkg.Path(), kanziPrefix) {
			if st.hooks == nil {
				st.hooks = map[string]Value{}
			}
			st.hooks["init:"+fn.Pkg.Pkg.Path()] = true
			return intrRes{}, false
		}
		return done(nil)
	}
	full := fn.String()
	if v, ok := c.cfg.StubConst[strings.ReplaceAll(full, kanziPrefix+"/", "")]; ok {
		// harness-declared cut: the callee is replaced by a constant result (recorded in the evidence)
		rt := fn.Signature.Results().At(0).Type()
		return done(tb.Const(typeWidth(rt), v))
	}
	for _, sf := range c.cfg.StubFirstByte {
		if strings.ReplaceAll(full, kanziPrefix+"/", "") == sf || full == sf {
			// harness-declared abstraction of a content hash: a cheap deterministic function of the content
			// (its first byte, 0 for empty input) - equal contents still give equal values
			sl := args[len(args)-1].(*SliceV)
			rt := fn.Signature.Results().At(0).Type()
			w := typeWidth(rt)
			if sl.Len.IsConst() && sl.Len.Val == 0 {
				return done(tb.Const(w, 0))
			}
			arr := c.load(st, sl.Arr).(*SymArr)
			b := arr.Read(tb, sl.Off)
			return done(tb.Ite(tb.Eq(sl.Len, tb.Const(64, 0)), tb.Const(w, 0), tb.Zext(b, w)))
		}
	}
	switch full {
	case "fmt.Sprintf", "fmt.Sprint", "fmt.Sprintln":
		return done(c.opaqueStr())
	case "fmt.Errorf":
		return done(c.mkError(st, c.opaqueStr()))
	case "fmt.Printf", "fmt.Println", "fmt.Print", "fmt.Fprintf", "fmt.Fprintln", "fmt.Fprint":
		return done(TupleV{tb.Const(64, 0), &IfaceV{}})
	case "time.Now":
		return done(tb.zero(fn.Signature.Results().At(0).Type()))
	case "time.Since", "(time.Time).Sub":
		return done(tb.Const(64, 0))
	case "(*sync.WaitGroup).Done":
		if st.hooks != nil && st.hooks["proto"] != nil {
			st.proto = append(st.proto, protoStep{Kind: "done", PcLen: len(st.pc)})
		}
		return done(nil)
	case "(*sync.WaitGroup).Add", "(*sync.WaitGroup).Wait",
		"(*sync.Mutex).Lock", "(*sync.Mutex).Unlock", "(*sync.RWMutex).Lock", "(*sync.RWMutex).Unlock",
		"(*sync.RWMutex).RLock", "(*sync.RWMutex).RUnlock", "runtime.Gosched", "runtime.GC", "runtime.KeepAlive":
		return done(nil)
	case "runtime.NumCPU", "runtime.GOMAXPROCS":
		return done(tb.Const(64, 1))
	case "strings.ToUpper", "strings.ToLower":
		s := args[0].(*StrV)
		if s.Opaque > 0 {
			return done(c.opaqueStr())
		}
		if s.Conc {
			if full == "strings.ToUpper" {
				return done(&StrV{Conc: true, S: strings.ToUpper(s.S)})
			}
			return done(&StrV{Conc: true, S: strings.ToLower(s.S)})
		}
		bs := c.strBytes(s)
		out := make([]*Term, len(bs))
		for i, b := range bs {
			if full == "strings.ToUpper" {
				isLower := tb.And(tb.Ule(tb.Const(8, 'a'), b), tb.Ule(b, tb.Const(8, 'z')))
				out[i] = tb.Ite(isLower, tb.Sub(b, tb.Const(8, 32)), b)
			} else {
				isUpper := tb.And(tb.Ule(tb.Const(8, 'A'), b), tb.Ule(b, tb.Const(8, 'Z')))
				out[i] = tb.Ite(isUpper, tb.Add(b, tb.Const(8, 32)), b)
			}
		}
		return done(c.mkStr(out))
	case "strings.EqualFold":
		a, b := args[0].(*StrV), args[1].(*StrV)
		if a.Conc && b.Conc {
			return done(tb.Bool(strings.EqualFold(a.S, b.S)))
		}
		up := func(s *StrV) *StrV {
			r, _ := c.intrinsic(st, c.prog.ImportedPackage("strings").Func("ToUpper"), []Value{s})
			return r.res.(*StrV)
		}
		return done(c.strEq(up(a), up(b)))
	case "strings.Contains":
		a, b := args[0].(*StrV), args[1].(*StrV)
		if a.Opaque == 0 && b.Opaque == 0 && (!a.Conc || !b.Conc) {
			// symbolic bytes, concrete lengths: OR over positions of AND of byte equalities
			ab, bb := c.strBytes(a), c.strBytes(b)
			r := tb.False
			for i := 0; i+len(bb) <= len(ab); i++ {
				m := tb.True
				for j := range bb {
					m = tb.And(m, tb.Eq(ab[i+j], bb[j]))
				}
				r = tb.Or(r, m)
			}
			return done(r)
		}
		return c.concreteStrings(st, full, args, fn)
	case "strings.IndexByte":
		a := args[0].(*StrV)
		ch := args[1].(*Term)
		if a.Opaque == 0 && !a.Conc {
			ab := c.strBytes(a)
			for i, x := range ab {
				e := tb.Eq(x, ch)
				if e.IsTrue() {
					return done(tb.Const(64, uint64(i)))
				}
				if !e.IsFalse() {
					unsup("strings.IndexByte: undecided byte comparison")
				}
			}
			return done(tb.Const(64, ^uint64(0)))
		}
		return c.concreteStrings(st, full, args, fn)
	case "strings.Split":
		a, sep := args[0].(*StrV), args[1].(*StrV)
		if a.Opaque == 0 && !a.Conc && sep.Conc && len(sep.S) == 1 {
			ab := c.strBytes(a)
			var parts []Value
			start := 0
			for i, x := range ab {
				e := tb.Eq(x, tb.Const(8, uint64(sep.S[0])))
				if e.IsTrue() {
					parts = append(parts, c.mkStr(ab[start:i]))
					start = i + 1
				} else if !e.IsFalse() {
					unsup("strings.Split: undecided separator comparison")
				}
			}
			parts = append(parts, c.mkStr(ab[start:]))
			id := c.newObj(st, &ValArr{E: parts})
			n := tb.Const(64, uint64(len(parts)))
			return done(&SliceV{Arr: Ptr{Obj: id}, Off: tb.Const(64, 0), Len: n, Cap: n})
		}
		return c.concreteStrings(st, full, args, fn)
	case "strings.TrimSpace", "strings.HasPrefix", "strings.HasSuffix", "strings.Index",
		"strings.Count", "strings.Repeat", "strings.Replace", "strings.ReplaceAll", "strings.Fields", "strings.LastIndex":
		return c.concreteStrings(st, full, args, fn)
	case "strconv.Itoa", "strconv.Quote", "strconv.FormatInt", "strconv.FormatUint":
		return done(c.opaqueStr())
	}
	if strings.HasPrefix(full, "sync/atomic.") && fn.Blocks == nil {
		return c.atomicOp(st, strings.TrimPrefix(full, "sync/atomic."), args)
	}
	if strings.HasPrefix(full, "math/bits.") {
		if r, ok := c.bitsOp(strings.TrimPrefix(full, "math/bits."), args); ok {
			return done(r)
		}
	}
	if fn.Blocks == nil {
		unsup("call of body-less function %s", full)
	}
	return intrRes{}, false
}

func (c *Ctx) concreteStrings(st *State, full string, args []Value, fn *ssa.Function) (intrRes, bool) {
	tb := c.tb
	strs := make([]string, len(args))
	allConc := true
	for i, a := range args {
		switch x := a.(type) {
		case *StrV:
			if !x.Conc {
				allConc = false
			}
			strs[i] = x.S
		case *Term:
			if !x.IsConst() {
				allConc = false
			}
		}
	}
	if !allConc {
		// let the real code run if it has a body we can handle
		return intrRes{}, false
	}
	done := func(v Value) (intrRes, bool) { return intrRes{false, v}, true }
	mkStrSlice := func(parts []string) Value {
		va := &ValArr{E: make([]Value, len(parts))}
		for i, p := range parts {
			va.E[i] = &StrV{Conc: true, S: p}
		}
		id := c.newObj(st, va)
		n := tb.Const(64, uint64(len(parts)))
		return &SliceV{Arr: Ptr{Obj: id}, Off: tb.Const(64, 0), Len: n, Cap: n}
	}
	switch full {
	case "strings.TrimSpace":
		return done(&StrV{Conc: true, S: strings.TrimSpace(strs[0])})
	case "strings.Contains":
		return done(tb.Bool(strings.Contains(strs[0], strs[1])))
	case "strings.HasPrefix":
		return done(tb.Bool(strings.HasPrefix(strs[0], strs[1])))
	case "strings.HasSuffix":
		return done(tb.Bool(strings.HasSuffix(strs[0], strs[1])))
	case "strings.Index":
		return done(tb.Const(64, uint64(int64(strings.Index(strs[0], strs[1])))))
	case "strings.LastIndex":
		return done(tb.Const(64, uint64(int64(strings.LastIndex(strs[0], strs[1])))))
	case "strings.IndexByte":
		return done(tb.Const(64, uint64(int64(strings.IndexByte(strs[0], byte(args[1].(*Term).Val))))))
	case "strings.Count":
		return done(tb.Const(64, uint64(strings.Count(strs[0], strs[1]))))
	case "strings.Split":
		return done(mkStrSlice(strings.Split(strs[0], strs[1])))
	case "strings.Fields":
		return done(mkStrSlice(strings.Fields(strs[0])))
	case "strings.Repeat":
		return done(&StrV{Conc: true, S: strings.Repeat(strs[0], int(args[1].(*Term).Val))})
	case "strings.ReplaceAll":
		return done(&StrV{Conc: true, S: strings.ReplaceAll(strs[0], strs[1], strs[2])})
	case "strings.Replace":
		return done(&StrV{Conc: true, S: strings.Replace(strs[0], strs[1], strs[2], int(sext64(args[3].(*Term).Val, 64)))})
	}
	return intrRes{}, false
}

func (c *Ctx) atomicOp(st *State, name string, args []Value) (intrRes, bool) {
	tb := c.tb
	done := func(v Value) (intrRes, bool) { return intrRes{false, v}, true }
	p, ok := args[0].(Ptr)
	if !ok || p.IsNil() {
		c.runtimePanic(st, "atomic op on nil pointer")
		return intrRes{true, nil}, true
	}
	if st.hooks != nil {
		if pp, ok := st.hooks["proto"].(Ptr); ok {
			if eq, known := ptrEqual(pp, p); eq && known {
				return c.protoAtomic(st, name, args)
			}
		}
	}
	switch {
	case strings.HasPrefix(name, "Load"):
		return done(c.load(st, p))
	case strings.HasPrefix(name, "Store"):
		c.store(st, p, args[1])
		return done(nil)
	case strings.HasPrefix(name, "Swap"):
		old := c.load(st, p)
		c.store(st, p, args[1])
		return done(old)
	case strings.HasPrefix(name, "CompareAndSwap"):
		cur := c.load(st, p)
		ct, ok1 := cur.(*Term)
		ot, ok2 := args[1].(*Term)
		if !ok1 || !ok2 {
			unsup("CAS on non-scalar")
		}
		eq := tb.Eq(ct, ot)
		c.store(st, p, tb.Ite(eq, args[2].(*Term), ct))
		return done(eq)
	case strings.HasPrefix(name, "Add"):
		cur := c.load(st, p).(*Term)
		nv := tb.Add(cur, args[1].(*Term))
		c.store(st, p, nv)
		return done(nv)
	case strings.HasPrefix(name, "And"), strings.HasPrefix(name, "Or"):
		cur := c.load(st, p).(*Term)
		var nv *Term
		if strings.HasPrefix(name, "And") {
			nv = tb.Bin(OBAnd, cur, args[1].(*Term))
		} else {
			nv = tb.Bin(OBOr, cur, args[1].(*Term))
		}
		c.store(st, p, nv)
		return done(cur)
	}
	unsup("atomic op %s", name)
	return intrRes{}, false
}

// bitsOp models math/bits functions on symbolic words without table lookups.
func (c *Ctx) bitsOp(name string, args []Value) (Value, bool) {
	tb := c.tb
	lenOf := func(x *Term) *Term {
		// number of bits needed to represent x, as 64-bit int
		r := tb.Const(64, 0)
		for i := 0; i < x.W; i++ {
			bit := tb.Eq(tb.Extract(x, i, i), tb.Const(1, 1))
			r = tb.Ite(bit, tb.Const(64, uint64(i+1)), r)
		}
		return r
	}
	switch name {
	case "Len", "Len64", "Len32", "Len16", "Len8":
		return lenOf(args[0].(*Term)), true
	case "LeadingZeros", "LeadingZeros64", "LeadingZeros32", "LeadingZeros16", "LeadingZeros8":
		x := args[0].(*Term)
		return tb.Sub(tb.Const(64, uint64(x.W)), lenOf(x)), true
	case "TrailingZeros", "TrailingZeros64", "TrailingZeros32", "TrailingZeros16", "TrailingZeros8":
		x := args[0].(*Term)
		r := tb.Const(64, uint64(x.W))
		for i := x.W - 1; i >= 0; i-- {
			bit := tb.Eq(tb.Extract(x, i, i), tb.Const(1, 1))
			r = tb.Ite(bit, tb.Const(64, uint64(i)), r)
		}
		return r, true
	case "RotateLeft32", "RotateLeft64", "RotateLeft":
		x := args[0].(*Term)
		k := args[1].(*Term)
		w := uint64(x.W)
		km := tb.Extract(tb.Bin(OBAnd, k, tb.Const(64, w-1)), x.W-1, 0)
		if x.W == 64 {
			km = tb.Bin(OBAnd, k, tb.Const(64, w-1))
		}
		l := tb.Bin(OShl, x, km)
		r := tb.Bin(OLshr, x, tb.Sub(tb.Const(x.W, w), km))
		// when km==0, lshr by w gives 0: fine
		return tb.Bin(OBOr, l, r), true
	}
	return nil, false
}

func (c *Ctx) vhAssert(st *State, cond *Term, label string) {
	c.asserts[label]++
	if cond.IsTrue() {
		return
	}
	neg := c.tb.Not(cond)
	var r SatResult
	var m *Model
	if !cond.IsFalse() && !cond.IsTrue() && !st.pcUnsure {
		// cheap counterexample search before the solver: a few pseudo-random assignments (mul/rotate-heavy
		// inequalities such as two different hash functions are satisfied by almost any input but stall bit-blasting)
		if gm := c.guessModel(st, neg); gm != nil {
			res := &PathResult{Outcome: OutAssertFail, Label: label, Model: gm, Inputs: c.inputsFromModel(st, gm)}
			c.finish(st, res)
			return
		}
	}
	if cond.IsFalse() {
		m, r = c.fullModel(st, nil)
	} else {
		c.verdictQ++
		sl := c.slice(st, neg)
		ts := append(append([]*Term{}, sl...), neg)
		if c.cfg.DumpQueries != "" {
			c.dumpQuery(ts, label)
		}
		r, m = c.solve(ts, c.cfg.VerdTimeoutMs)
		if r == Sat {
			// need a model of the whole pc for replay
			if len(sl) != len(st.pc) {
				fm, fr := c.fullModel(st, neg)
				if fr == Sat && fm != nil {
					m = fm
				} else if fr == Unsat {
					r = Unsat // pc itself was infeasible together with neg (can happen when pcUnsure)
				} else {
					r = Unknown
				}
			}
		}
	}
	switch r {
	case Unsat:
		return
	case Sat:
		res := &PathResult{Outcome: OutAssertFail, Label: label, Model: m, Inputs: c.inputsFromModel(st, m)}
		c.finish(st, res)
	default:
		res := &PathResult{Outcome: OutSolverUnknown, Label: label, Msg: "assertion undecided"}
		c.finish(st, res)
	}
}

func (c *Ctx) dumpQuery(ts []*Term, label string) {
	// written lazily by run.go (collects scripts for cross-solver re-checks)
	c.dumpN++
	queryDump(c.cfg.DumpQueries, c.cfg.CaseName, label, c.dumpN, c.tb.Script(ts, nil))
}

// inputsFromModel builds the replay table for the native harness.
func (c *Ctx) inputsFromModel(st *State, m *Model) map[string]uint64 {
	out := map[string]uint64{}
	if m == nil {
		return out
	}
	memo := map[int]uint64{}
	for _, in := range st.inputs {
		if in.T != nil {
			out[in.Key] = c.tb.Eval(in.T, m, memo)
			continue
		}
		if in.UF != "" {
			if in.Len != nil {
				out[in.Key+".len"] = c.tb.Eval(in.Len, m, memo)
			}
			for k, v := range m.UFs[in.UF] {
				out[fmt.Sprintf("%s[%s]", in.Key, k)] = v
			}
		}
	}
	for k, v := range c.cfg.Cases {
		out["case:"+k] = uint64(v)
	}
	return out
}

var _ = types.Typ

// protoAtomic: protocol mode (C07). Operations on the hand-off counter are visible events; the counter's value is
// not tracked locally: a Load yields a fresh variable (bound to the counter value at its firing time by the BMC),
// a CAS yields a fresh Boolean result. A Load instruction executed a second time in the same activation is a
// failed poll of the spin loop: that path is dropped (stutter step: failed polls change nothing but the spin count).
func (c *Ctx) protoAtomic(st *State, name string, args []Value) (intrRes, bool) {
	tb := c.tb
	done := func(v Value) (intrRes, bool) { return intrRes{false, v}, true }
	f := st.top()
	site := fmt.Sprintf("%d:%s:%d:%d", len(st.frames), f.fn.Name(), f.block.Index, f.ip)
	switch {
	case strings.HasPrefix(name, "Load"):
		key := "protoload:" + site
		if _, seen := st.hooks[key]; seen {
			c.finish(st, &PathResult{Outcome: OutInfeasible, Msg: "stutter"})
			return intrRes{true, nil}, true
		}
		st.hooks[key] = true
		v := tb.Var(st.uniq("ld"), 32)
		st.proto = append(st.proto, protoStep{Kind: "load", Var: v, PcLen: len(st.pc), Site: site})
		return done(v)
	case strings.HasPrefix(name, "Store"):
		st.proto = append(st.proto, protoStep{Kind: "store", A: args[1].(*Term), PcLen: len(st.pc), Site: site})
		return done(nil)
	case strings.HasPrefix(name, "CompareAndSwap"):
		r := tb.Var(st.uniq("cas"), 0)
		st.proto = append(st.proto, protoStep{Kind: "cas", A: args[1].(*Term), B: args[2].(*Term), Var: r, PcLen: len(st.pc), Site: site})
		return done(r)
	}
	unsup("protocol counter: unsupported atomic op %s", name)
	return intrRes{}, false
}

// guessModel tries a few deterministic pseudo-random assignments of all variables and returns one that satisfies
// pc and extra, if any. UF-based inputs are left to the solver.
func (c *Ctx) guessModel(st *State, extra *Term) *Model {
	ts := append(append([]*Term{}, st.pc...), extra)
	vars, ufs := Atoms(ts)
	if len(ufs) > 0 || len(vars) == 0 || len(vars) > 4000 {
		return nil
	}
	for k := uint64(0); k < 6; k++ {
		m := &Model{Vars: map[string]uint64{}, UFs: map[string]map[string]uint64{}, UFDefault: map[string]uint64{}}
		for _, v := range vars {
			switch k {
			case 0:
				m.Vars[v.Name] = 0
			case 1:
				m.Vars[v.Name] = mask64b(v.W)
			default:
				m.Vars[v.Name] = selfHash(v.Name, k) & mask64b(v.W)
			}
		}
		memo := map[int]uint64{}
		ok := true
		for _, t := range ts {
			if c.tb.Eval(t, m, memo) != 1 {
				ok = false
				break
			}
		}
		if ok {
			return m
		}
	}
	return nil
}
