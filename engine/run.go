package main

import (
	"math/rand"
	"strconv"
	"crypto/sha256"
	"encoding/json"
	"fmt"
	"os"
	"os/exec"
	"path/filepath"
	"sort"
	"strings"
	"sync"
	"time"

	"golang.org/x/tools/go/packages"
	"golang.org/x/tools/go/ssa"
	"golang.org/x/tools/go/ssa/ssautil"
)

var (
	repoDir    = envOr("VERIF_REPO", "/repo/v2")
	verifDir   = envOr("VERIF_DIR", "/verif")
	harnessDir = filepath.Join(verifDir, "harness")
	outDir     = envOr("VERIF_OUT", verifDir) // evidence and replays (overridden when checks are tried on a scratch copy of the repository)
)

func envOr(k, d string) string {
	if v := os.Getenv(k); v != "" {
		return v
	}
	return d
}

// kanzi package directory -> package name
var pkgNames = map[string]string{"bitstream": "bitstream", "io": "io", "entropy": "entropy", "transform": "transform",
	"hash": "hash", "internal": "internal", "app": "main", ".": "kanzi"}

// overlayFiles returns virtual path -> real path for all harness files (+ vh lib) of the given package dirs.
// refOverlay maps the frozen reference sources (/verif/reference/v2, import paths rewritten to .../v2/zzref/...)
// into the module as virtual packages, so that current and reference code live in one SSA program (C10).
func refOverlay(out map[string]string) {
	root := filepath.Join(verifDir, "reference", "v2")
	filepath.Walk(root, func(p string, info os.FileInfo, err error) error {
		if err == nil && !info.IsDir() && strings.HasSuffix(p, ".go") {
			rel, _ := filepath.Rel(root, p)
			out[filepath.Join(repoDir, "zzref", rel)] = p
		}
		return nil
	})
}

var useRef = false

func overlayFiles(pkgDirs []string, scratch string) (map[string]string, error) {
	out := map[string]string{}
	if useRef {
		refOverlay(out)
	}
	tmpl, err := os.ReadFile(filepath.Join(harnessDir, "vh.go.tmpl"))
	if err != nil {
		return nil, err
	}
	for _, pd := range pkgDirs {
		dir := filepath.Join(harnessDir, pd)
		ents, err := os.ReadDir(dir)
		if err != nil {
			continue
		}
		n := 0
		for _, e := range ents {
			if strings.HasSuffix(e.Name(), ".go") {
				out[filepath.Join(repoDir, pd, "zz_vh_"+e.Name())] = filepath.Join(dir, e.Name())
				n++
			}
		}
		if useRef {
			// harnesses that compare against the frozen reference sources (only loadable with the zzref overlay)
			rdir := filepath.Join(harnessDir, pd+"_ref")
			if rents, err := os.ReadDir(rdir); err == nil {
				for _, e := range rents {
					if strings.HasSuffix(e.Name(), ".go") {
						out[filepath.Join(repoDir, pd, "zz_vhref_"+e.Name())] = filepath.Join(rdir, e.Name())
					}
				}
			}
		}
		if n == 0 {
			continue
		}
		// vh library instantiated for the package
		pn := pkgNames[pd]
		if pn == "" {
			pn = filepath.Base(pd)
		}
		src := strings.Replace(string(tmpl), "package PKGNAME", "package "+pn, 1)
		real := filepath.Join(scratch, "vh_"+strings.ReplaceAll(pd, "/", "_")+".go")
		if err := os.WriteFile(real, []byte(src), 0o644); err != nil {
			return nil, err
		}
		out[filepath.Join(repoDir, pd, "zz_vh_lib.go")] = real
	}
	return out, nil
}

type Loaded struct {
	prog *ssa.Program
	pkgs map[string]*ssa.Package // by dir
	all  []*ssa.Package
}

var loadMu sync.Mutex
var loadCache = map[string]*Loaded{}

func loadProgram(pkgDirs []string, scratch string) (*Loaded, error) {
	key := strings.Join(pkgDirs, ",") + fmt.Sprint(useRef)
	loadMu.Lock()
	defer loadMu.Unlock()
	if l, ok := loadCache[key]; ok {
		return l, nil
	}
	ov, err := overlayFiles(pkgDirs, scratch)
	if err != nil {
		return nil, err
	}
	overlay := map[string][]byte{}
	for v, r := range ov {
		b, err := os.ReadFile(r)
		if err != nil {
			return nil, err
		}
		overlay[v] = b
	}
	var pats []string
	for _, pd := range pkgDirs {
		pats = append(pats, "./"+pd)
	}
	cfg := &packages.Config{Mode: packages.LoadAllSyntax, Dir: repoDir, Overlay: overlay,
		Env: append(os.Environ(), "GOFLAGS=-mod=mod", "GOPROXY=off"), BuildFlags: []string{"-tags=verif"}}
	pkgs, err := packages.Load(cfg, pats...)
	if err != nil {
		return nil, err
	}
	var errs []string
	packages.Visit(pkgs, nil, func(p *packages.Package) {
		for _, e := range p.Errors {
			errs = append(errs, e.Error())
		}
	})
	if len(errs) > 0 {
		return nil, fmt.Errorf("load errors:\n%s", strings.Join(errs, "\n"))
	}
	prog, spkgs := ssautil.AllPackages(pkgs, ssa.InstantiateGenerics)
	prog.Build()
	l := &Loaded{prog: prog, pkgs: map[string]*ssa.Package{}, all: spkgs}
	for i, pd := range pkgDirs {
		_ = i
		for _, sp := range spkgs {
			want := kanziPrefix
			if pd != "." {
				want += "/" + pd
			}
			if sp != nil && sp.Pkg.Path() == want {
				l.pkgs[pd] = sp
			}
		}
	}
	loadCache[key] = l
	return l, nil
}

// ---------------------------------------------------------------------------

type HarnessSpec struct {
	Pkg     string         `json:"pkg"`
	Func    string         `json:"func"`
	Unwind  int            `json:"unwind,omitempty"`
	Params  map[string]int `json:"params,omitempty"`
	FeasMs  int            `json:"feas_ms,omitempty"`
	VerdMs  int            `json:"verd_ms,omitempty"`
	MaxPath int            `json:"max_paths,omitempty"`
	Note    string         `json:"note,omitempty"`
	Solver  string         `json:"solver,omitempty"`
	ConcStores bool        `json:"concretize_stores,omitempty"`
	StubConst map[string]uint64 `json:"stub_const,omitempty"`
	StubFirstByte []string `json:"stub_first_byte,omitempty"`
	// CasePick restricts a vhCase variable to a subset: the listed values plus `random` seeded picks (VERIF_SEED)
	CasePick map[string]CasePick `json:"case_pick,omitempty"`
	// Reach tags that must be witnessed by at least one completed path (vacuity guard)
	Reach []string `json:"reach,omitempty"`
}

type CasePick struct {
	Always []int64 `json:"always"`
	Random int     `json:"random"`
}

type HarnessReport struct {
	Spec        HarnessSpec        `json:"spec"`
	Cases       int                `json:"cases"`
	Paths       int                `json:"paths"`
	Outcomes    map[string]int     `json:"outcomes"`
	Asserts     map[string]int     `json:"assertions_checked"`
	ReachSeen   []string           `json:"reach_witnessed"`
	ReachMiss   []string           `json:"reach_missing,omitempty"`
	VerdictQ    int                `json:"verdict_queries"`
	Funcs       []string           `json:"functions_encoded"`
	WallS       float64            `json:"wall_s"`
	Violations  []*Violation       `json:"violations,omitempty"`
	Undecided   []string           `json:"undecided,omitempty"`
	Unsupported []string           `json:"unsupported,omitempty"`
	Samples     []map[string]any   `json:"samples,omitempty"`
	results     []*PathResult
	funcSet     map[string]bool
}

type Violation struct {
	Harness   string            `json:"harness"`
	Kind      string            `json:"kind"`
	Label     string            `json:"label"`
	Msg       string            `json:"msg,omitempty"`
	Case      string            `json:"case,omitempty"`
	Inputs    map[string]uint64 `json:"inputs"`
	Replay    string            `json:"replay,omitempty"`
	Confirmed string            `json:"confirmed"` // yes / no / error
	ReplayOut string            `json:"replay_output,omitempty"`
	Known     string            `json:"known_finding,omitempty"`
}

func seedFromEnv() int64 {
	if s := os.Getenv("VERIF_SEED"); s != "" {
		if v, err := strconv.ParseInt(s, 10, 64); err == nil {
			return v
		}
	}
	return 1
}

func caseName(cs map[string]int64) string {
	var ks []string
	for k := range cs {
		ks = append(ks, k)
	}
	sort.Strings(ks)
	var sb strings.Builder
	for _, k := range ks {
		fmt.Fprintf(&sb, "%s=%d;", k, cs[k])
	}
	return sb.String()
}

// globalSem bounds the number of concurrently running symbolic executions (one solver process each)
var globalSem = make(chan bool, 16)

type job struct {
	cases map[string]int64
}

// runHarness explores one harness function over all vhCase combinations in parallel.
func runHarness(l *Loaded, spec HarnessSpec, workers int, verbose bool, dumpDir string) *HarnessReport {
	t0 := time.Now()
	rep := &HarnessReport{Spec: spec, Outcomes: map[string]int{}, Asserts: map[string]int{}, funcSet: map[string]bool{}}
	sp := l.pkgs[spec.Pkg]
	if sp == nil {
		rep.Unsupported = append(rep.Unsupported, "package not loaded: "+spec.Pkg)
		return rep
	}
	if sp.Func(spec.Func+"_api") != nil {
		apiConfirm[spec.Pkg+"."+spec.Func] = true
	}
	fn := sp.Func(spec.Func)
	if fn == nil {
		rep.Unsupported = append(rep.Unsupported, "harness function not found: "+spec.Func)
		return rep
	}
	var mu sync.Mutex
	reach := map[string]bool{}
	jobs := make(chan job, 1<<16)
	var wg sync.WaitGroup
	var pending sync.WaitGroup
	pending.Add(1)
	jobs <- job{cases: map[string]int64{}}
	for w := 0; w < workers; w++ {
		wg.Add(1)
		go func() {
			defer wg.Done()
			for j := range jobs {
				func() {
					defer pending.Done()
					globalSem <- true
					defer func() { <-globalSem }()
					cfg := Config{Unwind: spec.Unwind, Cases: j.cases, Verbose: verbose, FeasTimeoutMs: spec.FeasMs, VerdTimeoutMs: spec.VerdMs,
						MaxPaths: spec.MaxPath, CaseName: caseName(j.cases), DumpQueries: dumpDir, Params: spec.Params, Solver: spec.Solver, ConcStores: spec.ConcStores, StubConst: spec.StubConst, StubFirstByte: spec.StubFirstByte}
					c := NewCtx(l.prog, cfg)
					defer c.Close()
					st := &State{heap: map[int]Value{}}
					var res []*PathResult
					func() {
						defer func() {
							if r := recover(); r != nil {
								if u, ok := r.(unsupported); ok {
									res = append(res, &PathResult{Outcome: OutUnsupported, Msg: u.msg})
									return
								}
								panic(r)
							}
						}()
						c.pushFrame(st, fn, nil, nil, -1)
						res = c.Run(st)
					}()
					if c.needCase != nil {
						nc := c.needCase
						var pick map[int64]bool
						if cp, ok := spec.CasePick[nc.Name]; ok {
							pick = map[int64]bool{}
							for _, a := range cp.Always {
								pick[a] = true
							}
							rng := rand.New(rand.NewSource(seedFromEnv()))
							for tries := 0; len(pick) < len(cp.Always)+cp.Random && tries < 10000 && int64(len(pick)) < nc.Hi-nc.Lo+1; tries++ {
								pick[nc.Lo+rng.Int63n(nc.Hi-nc.Lo+1)] = true
							}
						}
						for v := nc.Lo; v <= nc.Hi; v++ {
							if pick != nil && !pick[v] {
								continue
							}
							m := map[string]int64{}
							for k, x := range j.cases {
								m[k] = x
							}
							m[nc.Name] = v
							pending.Add(1)
							jobs <- job{cases: m}
						}
						return
					}
					mu.Lock()
					defer mu.Unlock()
					if verbose {
						fmt.Printf("  case done: %s paths=%d queries=%d\n", caseName(j.cases), c.paths, c.solver.Local.Queries)
					}
					rep.Cases++
					rep.Paths += c.paths
					rep.VerdictQ += c.verdictQ
					for k, v := range c.asserts {
						rep.Asserts[k] += v
					}
					for f := range c.funcs {
						rep.funcSet[f.String()] = true
					}
					for _, r := range res {
						rep.Outcomes[r.Outcome.String()]++
						if r.Outcome == OutDone {
							for _, t := range r.Reach {
								reach[t] = true
							}
						}
						rep.results = append(rep.results, r)
					}
					if c.nestedErr != "" {
						rep.Unsupported = append(rep.Unsupported, c.nestedErr)
					}
					if len(res) == 0 {
						// every path of this case died on an assumption: the case checks nothing (vacuity guard)
						rep.Undecided = append(rep.Undecided, "vacuous case (all paths infeasible): "+caseName(j.cases))
					}
				}()
			}
		}()
	}
	pending.Wait()
	close(jobs)
	wg.Wait()
	for t := range reach {
		rep.ReachSeen = append(rep.ReachSeen, t)
	}
	sort.Strings(rep.ReachSeen)
	for _, t := range spec.Reach {
		if !reach[t] {
			rep.ReachMiss = append(rep.ReachMiss, t)
		}
	}
	for f := range rep.funcSet {
		if strings.Contains(f, "vh") && strings.Contains(f, kanziPrefix) && strings.Contains(f[strings.LastIndex(f, "/")+1:], ".vh") {
			continue
		}
		rep.Funcs = append(rep.Funcs, strings.TrimPrefix(f, kanziPrefix+"/"))
	}
	sort.Strings(rep.Funcs)
	seenU := map[string]bool{}
	for _, r := range rep.results {
		switch r.Outcome {
		case OutAssertFail, OutPanic:
			kind := "assert"
			if r.Outcome == OutPanic {
				kind = "panic"
			}
			rep.Violations = append(rep.Violations, &Violation{Harness: spec.Func, Kind: kind, Label: r.Label, Msg: r.Msg, Case: r.Case, Inputs: r.Inputs})
		case OutUnwind, OutStepLimit, OutSolverUnknown:
			k := r.Outcome.String() + ": " + r.Label + " " + r.Msg
			if !seenU[k] {
				seenU[k] = true
				rep.Undecided = append(rep.Undecided, k)
			}
		case OutUnsupported:
			if !seenU[r.Msg] {
				seenU[r.Msg] = true
				rep.Unsupported = append(rep.Unsupported, r.Msg)
			}
		}
	}
	// samples: a few completed paths with their notes
	ns := 0
	for _, r := range rep.results {
		if r.Outcome == OutDone && ns < 3 {
			rep.Samples = append(rep.Samples, map[string]any{"case": r.Case, "reach": r.Reach, "notes": r.Notes, "steps": r.Steps})
			ns++
		}
	}
	rep.WallS = time.Since(t0).Seconds()
	return rep
}

// ---------------------------------------------------------------------------
// Replay

func writeJSON(path string, v any) error {
	b, err := json.MarshalIndent(v, "", " ")
	if err != nil {
		return err
	}
	return os.WriteFile(path, b, 0o644)
}

// prepareReplay creates a self-contained replay directory for a violation.
// apiConfirm: harness functions that have a native-only twin <Func>_api driving the same scenario through the
// public API from a fresh object; when present, a counterexample only counts as confirmed if the twin fails too.
var apiConfirm = map[string]bool{}

func prepareReplay(dir string, spec HarnessSpec, v *Violation) error {
	if err := os.MkdirAll(dir, 0o755); err != nil {
		return err
	}
	pn := pkgNames[spec.Pkg]
	test := fmt.Sprintf(`package %s

import "testing"

func TestVHReplay(t *testing.T) {
	vhLoadReplay()
	defer vhReport(t)
	%s()
}
`, pn, spec.Func)
	if apiConfirm[spec.Pkg+"."+spec.Func] {
		test += fmt.Sprintf(`
func TestVHReplayAPI(t *testing.T) {
	vhLoadReplay()
	defer vhReportAPI(t)
	%s_api()
}
`, spec.Func)
	}
	if err := os.WriteFile(filepath.Join(dir, "replay_test.go"), []byte(test), 0o644); err != nil {
		return err
	}
	ins := map[string]any{"harness": spec.Func, "pkg": spec.Pkg, "label": v.Label, "kind": v.Kind, "inputs": v.Inputs, "params": spec.Params,
		"api": apiConfirm[spec.Pkg+"."+spec.Func]}
	if err := writeJSON(filepath.Join(dir, "inputs.json"), ins); err != nil {
		return err
	}
	return nil
}

// runReplay executes the replay natively against the current /repo tree.
func runReplay(dir string) (string, string) {
	b, err := os.ReadFile(filepath.Join(dir, "inputs.json"))
	if err != nil {
		return "error", err.Error()
	}
	var ins struct {
		Harness string `json:"harness"`
		Pkg     string `json:"pkg"`
		Label   string `json:"label"`
		Kind    string `json:"kind"`
		API     bool   `json:"api"`
	}
	json.Unmarshal(b, &ins)
	scratch, err := os.MkdirTemp("", "gosmt-replay-*")
	if err != nil {
		return "error", err.Error()
	}
	defer os.RemoveAll(scratch)
	ov, err := overlayFiles([]string{ins.Pkg}, scratch)
	if err != nil {
		return "error", err.Error()
	}
	ov[filepath.Join(repoDir, ins.Pkg, "zz_vh_replay_test.go")] = filepath.Join(dir, "replay_test.go")
	ovPath := filepath.Join(scratch, "overlay.json")
	writeJSON(ovPath, map[string]any{"Replace": ov})
	absIn, _ := filepath.Abs(filepath.Join(dir, "inputs.json"))
	cmd := exec.Command("go", "test", "-v", "-vet=off", "-count=1", "-tags=verif", "-run", "^TestVHReplay(API)?$", "-timeout", "120s", "-overlay", ovPath, "./"+ins.Pkg)
	cmd.Dir = repoDir
	cmd.Env = append(os.Environ(), "GOFLAGS=-mod=mod", "GOPROXY=off", "VH_REPLAY="+absIn, "GOCACHE="+goCache())
	out, _ := cmd.CombinedOutput()
	o := string(out)
	var line, apiLine string
	for _, l := range strings.Split(o, "\n") {
		if strings.HasPrefix(strings.TrimSpace(l), "VH-RESULT:") {
			line = strings.TrimSpace(l)
		}
		if strings.HasPrefix(strings.TrimSpace(l), "VH-API-RESULT:") {
			apiLine = strings.TrimSpace(l)
		}
	}
	if ins.API {
		// inductive harness: the arbitrary pre-state must also be reached through the public API
		if !(strings.Contains(apiLine, "assert-fail") || strings.Contains(apiLine, "panic")) {
			return "no", "harness reproduces (" + line + ") but the API-level scenario does not (" + apiLine + "): unreachable pre-state or harness artefact"
		}
		line += " | " + apiLine
	}
	if line == "" {
		// crash of the test binary (e.g. goroutine panic) counts as a panic result
		if strings.Contains(o, "panic:") || strings.Contains(o, "fatal error:") {
			line = "VH-RESULT: crash"
		} else {
			return "error", tail(o, 2000)
		}
	}
	switch {
	case ins.Kind == "assert" && strings.Contains(line, "assert-fail label="+ins.Label):
		return "yes", line
	case ins.Kind == "panic" && (strings.Contains(line, "panic") || strings.Contains(line, "crash")):
		return "yes", line + "\n" + tail(o, 600)
	}
	return "no", line
}

func goCache() string {
	if v := os.Getenv("GOCACHE"); v != "" {
		return v
	}
	h, _ := os.UserCacheDir()
	return filepath.Join(h, "go-build")
}

func tail(s string, n int) string {
	if len(s) > n {
		return s[len(s)-n:]
	}
	return s
}

func srcHash(files ...string) string {
	h := sha256.New()
	for _, f := range files {
		b, _ := os.ReadFile(f)
		h.Write(b)
	}
	return fmt.Sprintf("%x", h.Sum(nil))[:16]
}

var dumpMu sync.Mutex

func queryDump(dir, cname, label string, n int, script string) {
	dumpMu.Lock()
	defer dumpMu.Unlock()
	os.MkdirAll(dir, 0o755)
	safe := func(s string) string {
		return strings.Map(func(r rune) rune {
			if (r >= 'a' && r <= 'z') || (r >= 'A' && r <= 'Z') || (r >= '0' && r <= '9') || r == '-' || r == '_' {
				return r
			}
			return '_'
		}, s)
	}
	name := fmt.Sprintf("%s__%s__%d.smt2", safe(cname), safe(label), n)
	os.WriteFile(filepath.Join(dir, name), []byte(script), 0o644)
}
