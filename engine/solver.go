package main

// Solver process management: one persistent `z3 -in` per Solver, every query
// self-contained between (reset)s.  Any "(error" line => inconclusive.

import (
	"bufio"
	"context"
	"fmt"
	"io"
	"os"
	"os/exec"
	"strconv"
	"strings"
	"sync"
	"sync/atomic"
	"time"
)

type SatResult int

const (
	Unsat SatResult = iota
	Sat
	Unknown
)

func (r SatResult) String() string { return [...]string{"unsat", "sat", "unknown"}[r] }

type SolverStats struct {
	Queries  int64
	Sat      int64
	Unsat    int64
	Unknown  int64
	Nanos    int64
	CacheHit int64
	ByCvc5Int int64
}

var globalStats SolverStats

type Solver struct {
	cmd   *exec.Cmd
	in    io.WriteCloser
	out   *bufio.Reader
	mu    sync.Mutex
	Kind  string // z3, z3-new, cvc5
	alive bool
	needPop bool
	cvcTried, cvcWon int // adaptive use of the cvc5 integer-encoding attempt
	dirty   bool // base level holds assertions of a reset-mode query
	Local SolverStats
}

func solverArgs(kind string) (string, []string) {
	switch kind {
	case "z3":
		return "/usr/bin/z3", []string{"-in"}
	case "z3-new":
		return "z3-new", []string{"-in"}
	case "cvc5":
		return "cvc5", []string{"--incremental", "--lang=smt2", "--produce-models"}
	}
	panic("unknown solver " + kind)
}

func NewSolver(kind string) *Solver {
	s := &Solver{Kind: kind}
	s.start()
	return s
}

func (s *Solver) start() {
	bin, args := solverArgs(s.Kind)
	s.cmd = exec.Command(bin, args...)
	in, _ := s.cmd.StdinPipe()
	out, _ := s.cmd.StdoutPipe()
	s.cmd.Stderr = nil
	if err := s.cmd.Start(); err != nil {
		panic(fmt.Sprintf("cannot start solver %s: %v", bin, err))
	}
	s.in = in
	s.out = bufio.NewReaderSize(out, 1<<20)
	s.alive = true
	s.needPop = false
	s.dirty = false
	if s.Kind == "z3" || s.Kind == "z3-new" {
		io.WriteString(s.in, "(set-option :produce-models true)\n")
	}
}

func (s *Solver) Close() {
	if s.alive {
		s.in.Close()
		s.cmd.Process.Kill()
		s.cmd.Wait()
		s.alive = false
	}
}

func (s *Solver) restart() {
	s.Close()
	s.start()
}

// readSexp reads one balanced s-expression or atom line from the solver.
func (s *Solver) readSexp(deadline time.Time) (string, error) {
	type res struct {
		s   string
		err error
	}
	ch := make(chan res, 1)
	out := s.out // capture: a leaked reader must never touch the stream of a restarted process
	go func() {
		var sb strings.Builder
		depth := 0
		started := false
		for {
			line, err := out.ReadString('\n')
			if err != nil {
				ch <- res{sb.String(), err}
				return
			}
			inStr := false
			for _, c := range line {
				if c == '"' {
					inStr = !inStr
				}
				if inStr {
					continue
				}
				if c == '(' {
					depth++
					started = true
				} else if c == ')' {
					depth--
				}
			}
			sb.WriteString(line)
			if strings.TrimSpace(line) != "" {
				started = true
			}
			if started && depth <= 0 {
				ch <- res{sb.String(), nil}
				return
			}
		}
	}()
	select {
	case r := <-ch:
		return r.s, r.err
	case <-time.After(time.Until(deadline)):
		return "", fmt.Errorf("solver read timeout")
	}
}

// Check runs a self-contained script (declarations+asserts) and returns the verdict.
// If wantVals is non-empty and the result is sat, the values of those SMT expressions
// (given as strings) are returned in order.
func (s *Solver) Check(script string, timeoutMs int, wantVals []string) (SatResult, []uint64, string) {
	// easy queries are much cheaper in z3's incremental mode (push/pop); hard ones in the tactic mode after (reset)
	if (s.Kind == "z3" || s.Kind == "z3-new") && timeoutMs > 400 && os.Getenv("GOSMT_NOINC") == "" {
		r, v, m := s.check(script, 250, wantVals, true)
		if r != Unknown {
			return r, v, m
		}
		s.Local.Unknown--
		atomic.AddInt64(&globalStats.Unknown, -1)
		atomic.AddInt64(&globalStats.Queries, -1)
	}
	// arithmetic-heavy queries (index/length reasoning) that stall bit-blasting are often immediate for
	// cvc5's integer encoding of bit-vectors (mod-2^k semantics kept): short one-shot attempt
	if timeoutMs > 400 && os.Getenv("GOSMT_NOCVC5") == "" && !strings.Contains(script, "; symshift") && (s.cvcTried < 6 || s.cvcWon*3 >= s.cvcTried) {
		s.cvcTried++
		if r, v, ok := cvc5IntShot(script, wantVals, 1500); ok {
			s.cvcWon++
			atomic.AddInt64(&globalStats.Queries, 1)
			atomic.AddInt64(&globalStats.ByCvc5Int, 1)
			s.Local.Queries++
			s.count(r)
			return r, v, ""
		}
	}
	return s.check(script, timeoutMs, wantVals, false)
}

// cvc5IntShot runs one query in a fresh cvc5 process with --solve-bv-as-int=sum.
func cvc5IntShot(script string, wantVals []string, timeoutMs int) (SatResult, []uint64, bool) {
	t0 := time.Now()
	defer func() { atomic.AddInt64(&globalStats.Nanos, time.Since(t0).Nanoseconds()) }()
	var sb strings.Builder
	sb.WriteString("(set-option :produce-models true)\n(set-logic ALL)\n")
	sb.WriteString(script)
	sb.WriteString("(check-sat)\n")
	if len(wantVals) > 0 {
		sb.WriteString("(get-value (" + strings.Join(wantVals, " ") + "))\n")
	}
	// cvc5 does not always honour --tlimit during preprocessing: hard deadline on the process
	cctx, cancel := context.WithTimeout(context.Background(), time.Duration(timeoutMs+1000)*time.Millisecond)
	defer cancel()
	cmd := exec.CommandContext(cctx, "cvc5", "--lang=smt2", "--solve-bv-as-int=sum", fmt.Sprintf("--tlimit=%d", timeoutMs))
	cmd.Stdin = strings.NewReader(sb.String())
	out, _ := cmd.Output()
	o := strings.TrimSpace(string(out))
	if strings.HasPrefix(o, "unsat") {
		// (the trailing get-value then yields an error line, which is expected)
		if strings.Count(o, "(error") > 1 || (len(wantVals) == 0 && strings.Contains(o, "(error")) {
			return Unknown, nil, false
		}
		return Unsat, nil, true
	}
	if strings.Contains(o, "(error") {
		return Unknown, nil, false
	}
	if strings.HasPrefix(o, "sat") {
		if len(wantVals) == 0 {
			return Sat, nil, true
		}
		rest := strings.TrimSpace(o[3:])
		vs, err := parseGetValue(rest, len(wantVals))
		if err != nil {
			return Unknown, nil, false
		}
		return Sat, vs, true
	}
	return Unknown, nil, false
}

func (s *Solver) check(script string, timeoutMs int, wantVals []string, incremental bool) (SatResult, []uint64, string) {
	s.mu.Lock()
	defer s.mu.Unlock()
	t0 := time.Now()
	if os.Getenv("GOSMT_TIMELOG") != "" {
		fmt.Fprintf(os.Stderr, "CHECK start inc=%v timeout=%d size=%d\n", incremental, timeoutMs, len(script))
		defer func() { fmt.Fprintf(os.Stderr, "CHECK end %.3fs\n", time.Since(t0).Seconds()) }()
	}
	defer func() {
		d := time.Since(t0).Nanoseconds()
		atomic.AddInt64(&globalStats.Nanos, d)
		s.Local.Nanos += d
	}()
	atomic.AddInt64(&globalStats.Queries, 1)
	s.Local.Queries++
	if !s.alive {
		s.start()
	}
	var pre string
	switch s.Kind {
	case "z3", "z3-new":
		if incremental {
			if s.dirty {
				pre = "(reset)\n(set-option :produce-models true)\n"
				s.dirty = false
				s.needPop = false
			}
			if s.needPop {
				pre = "(pop 1)\n"
			}
			pre += fmt.Sprintf("(set-option :timeout %d)\n(push 1)\n", timeoutMs)
			s.needPop = true
		} else {
			pre = fmt.Sprintf("(reset)\n(set-option :timeout %d)\n(set-option :produce-models true)\n", timeoutMs)
			s.needPop = false
			s.dirty = true
		}
	case "cvc5":
		pre = fmt.Sprintf("(reset)\n(set-option :tlimit-per %d)\n(set-option :produce-models true)\n(set-logic ALL)\n", timeoutMs)
	}
	full := pre + script + "(check-sat)\n"
	if tl := os.Getenv("GOSMT_TRACE"); tl != "" {
		f, _ := os.OpenFile(tl, os.O_APPEND|os.O_CREATE|os.O_WRONLY, 0o644)
		f.WriteString(full)
		f.Close()
	}
	if _, err := io.WriteString(s.in, full); err != nil {
		s.restart()
		s.count(Unknown)
		return Unknown, nil, "write error: " + err.Error()
	}
	slack := 5 * time.Second
	if incremental {
		slack = 1500 * time.Millisecond
	}
	deadline := time.Now().Add(time.Duration(timeoutMs)*time.Millisecond + slack)
	var ans string
	for {
		line, err := s.readSexp(deadline)
		if err != nil {
			s.restart()
			s.count(Unknown)
			return Unknown, nil, "solver died/timeout: " + err.Error()
		}
		l := strings.TrimSpace(line)
		if tl := os.Getenv("GOSMT_TRACE"); tl != "" {
			f, _ := os.OpenFile(tl, os.O_APPEND|os.O_CREATE|os.O_WRONLY, 0o644)
			f.WriteString("; RESP: " + l + "\n")
			f.Close()
		}
		if l == "" || l == "success" {
			continue
		}
		if strings.HasPrefix(l, "(error") {
			// inconclusive; drain by restarting
			s.restart()
			s.count(Unknown)
			return Unknown, nil, "solver error: " + l
		}
		ans = l
		break
	}
	switch ans {
	case "unsat":
		s.count(Unsat)
		return Unsat, nil, ""
	case "sat":
		s.count(Sat)
		if len(wantVals) == 0 {
			return Sat, nil, ""
		}
		vals := make([]uint64, 0, len(wantVals))
		// chunk get-value requests
		const chunk = 200
		for i := 0; i < len(wantVals); i += chunk {
			j := i + chunk
			if j > len(wantVals) {
				j = len(wantVals)
			}
			req := "(get-value (" + strings.Join(wantVals[i:j], " ") + "))\n"
			if _, err := io.WriteString(s.in, req); err != nil {
				s.restart()
				return Sat, nil, "write error"
			}
			resp, err := s.readSexp(time.Now().Add(30 * time.Second))
			if err != nil || strings.HasPrefix(strings.TrimSpace(resp), "(error") {
				s.restart()
				return Sat, nil, "get-value failed: " + resp
			}
			vs, perr := parseGetValue(resp, j-i)
			if perr != nil {
				s.restart()
				return Sat, nil, "get-value parse: " + perr.Error() + ": " + resp
			}
			vals = append(vals, vs...)
		}
		return Sat, vals, ""
	default:
		s.count(Unknown)
		return Unknown, nil, ans
	}
}

func (s *Solver) count(r SatResult) {
	switch r {
	case Sat:
		atomic.AddInt64(&globalStats.Sat, 1)
		s.Local.Sat++
	case Unsat:
		atomic.AddInt64(&globalStats.Unsat, 1)
		s.Local.Unsat++
	default:
		atomic.AddInt64(&globalStats.Unknown, 1)
		s.Local.Unknown++
	}
}

// parseGetValue parses "((expr val) (expr val) ...)" and returns the values in order.
func parseGetValue(resp string, n int) ([]uint64, error) {
	toks := tokenize(resp)
	pos := 0
	var parse func() (interface{}, error)
	parse = func() (interface{}, error) {
		if pos >= len(toks) {
			return nil, fmt.Errorf("eof")
		}
		t := toks[pos]
		pos++
		if t == "(" {
			var l []interface{}
			for pos < len(toks) && toks[pos] != ")" {
				e, err := parse()
				if err != nil {
					return nil, err
				}
				l = append(l, e)
			}
			pos++
			return l, nil
		}
		return t, nil
	}
	top, err := parse()
	if err != nil {
		return nil, err
	}
	l, ok := top.([]interface{})
	if !ok || len(l) != n {
		return nil, fmt.Errorf("expected %d pairs, got %v", n, len(l))
	}
	out := make([]uint64, n)
	for i, p := range l {
		pl, ok := p.([]interface{})
		if !ok || len(pl) != 2 {
			return nil, fmt.Errorf("bad pair")
		}
		v, err := parseVal(pl[1])
		if err != nil {
			return nil, err
		}
		out[i] = v
	}
	return out, nil
}

func parseVal(v interface{}) (uint64, error) {
	switch x := v.(type) {
	case string:
		switch {
		case x == "true":
			return 1, nil
		case x == "false":
			return 0, nil
		case strings.HasPrefix(x, "#x"):
			return strconv.ParseUint(x[2:], 16, 64)
		case strings.HasPrefix(x, "#b"):
			return strconv.ParseUint(x[2:], 2, 64)
		}
	case []interface{}:
		// (_ bv123 64)
		if len(x) == 3 {
			if s, ok := x[1].(string); ok && strings.HasPrefix(s, "bv") {
				return strconv.ParseUint(s[2:], 10, 64)
			}
		}
	}
	return 0, fmt.Errorf("cannot parse value %v", v)
}

func tokenize(s string) []string {
	var toks []string
	i := 0
	for i < len(s) {
		c := s[i]
		switch {
		case c == '(' || c == ')':
			toks = append(toks, string(c))
			i++
		case c == ' ' || c == '\n' || c == '\t' || c == '\r':
			i++
		case c == '|':
			j := i + 1
			for j < len(s) && s[j] != '|' {
				j++
			}
			toks = append(toks, s[i:j+1])
			i = j + 1
		default:
			j := i
			for j < len(s) && !strings.ContainsRune("() \n\t\r", rune(s[j])) {
				j++
			}
			toks = append(toks, s[i:j])
			i = j
		}
	}
	return toks
}

// OneShot runs a script in a fresh solver process (used for cross-checking verdict queries).
func OneShot(kind string, script string, timeoutSec int) (SatResult, string) {
	f, err := os.CreateTemp("", "gosmt-q-*.smt2")
	if err != nil {
		return Unknown, err.Error()
	}
	defer os.Remove(f.Name())
	var args []string
	var bin string
	switch kind {
	case "z3":
		bin, args = "/usr/bin/z3", []string{fmt.Sprintf("-T:%d", timeoutSec), f.Name()}
	case "z3-new":
		bin, args = "z3-new", []string{fmt.Sprintf("-T:%d", timeoutSec), f.Name()}
	case "cvc5":
		bin, args = "cvc5", []string{fmt.Sprintf("--tlimit=%d", timeoutSec*1000), "--lang=smt2", f.Name()}
		script = "(set-logic ALL)\n" + script
	case "cvc5-int":
		bin, args = "cvc5", []string{fmt.Sprintf("--tlimit=%d", timeoutSec*1000), "--lang=smt2", "--solve-bv-as-int=sum", f.Name()}
		script = "(set-logic ALL)\n" + script
	}
	f.WriteString(script + "(check-sat)\n")
	f.Close()
	t0 := time.Now()
	// hard deadline: cvc5 does not always honour --tlimit
	octx, cancel := context.WithTimeout(context.Background(), time.Duration(timeoutSec+5)*time.Second)
	defer cancel()
	out, _ := exec.CommandContext(octx, bin, args...).CombinedOutput()
	atomic.AddInt64(&globalStats.Nanos, time.Since(t0).Nanoseconds())
	atomic.AddInt64(&globalStats.Queries, 1)
	o := string(out)
	if strings.Contains(o, "(error") {
		return Unknown, o
	}
	for _, l := range strings.Split(o, "\n") {
		switch strings.TrimSpace(l) {
		case "unsat":
			return Unsat, ""
		case "sat":
			return Sat, ""
		}
	}
	return Unknown, strings.TrimSpace(o)
}
