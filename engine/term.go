package main

// Hash-consed SMT terms over bit-vectors and Booleans with constant folding,
// light algebraic simplification, concrete evaluation under a model and
// SMT-LIB2 printing (DAG-shared via let-free define-fun lines).

import (
	"os"
	"fmt"
	"math/bits"
	"sort"
	"strings"
)

type Op uint8

const (
	OConst Op = iota
	OVar
	OUF // uninterpreted function application: name(args...) -> BV(width)
	ONot
	OAnd
	OOr
	OIte
	OEq
	OUlt
	OUle
	OSlt
	OSle
	OAdd
	OSub
	OMul
	OUDiv
	OURem
	OSDiv
	OSRem
	OBAnd
	OBOr
	OBXor
	OBNot
	ONeg
	OShl
	OLshr
	OAshr
	OConcat
	OExtract
	OZext
	OSext
)

var opNames = map[Op]string{ONot: "not", OAnd: "and", OOr: "or", OIte: "ite", OEq: "=", OUlt: "bvult", OUle: "bvule",
	OSlt: "bvslt", OSle: "bvsle", OAdd: "bvadd", OSub: "bvsub", OMul: "bvmul", OUDiv: "bvudiv", OURem: "bvurem",
	OSDiv: "bvsdiv", OSRem: "bvsrem", OBAnd: "bvand", OBOr: "bvor", OBXor: "bvxor", OBNot: "bvnot", ONeg: "bvneg",
	OShl: "bvshl", OLshr: "bvlshr", OAshr: "bvashr", OConcat: "concat"}

// Term is an immutable hash-consed node. W==0 means Bool.
type Term struct {
	ID   int
	Op   Op
	W    int // bit width; 0 = Bool
	Val  uint64
	Name string
	Args []*Term
	A, B int // extract hi/lo ; extension amount in A
}

func (t *Term) IsConst() bool { return t.Op == OConst }
func (t *Term) IsBool() bool  { return t.W == 0 }
func (t *Term) IsTrue() bool  { return t.Op == OConst && t.W == 0 && t.Val == 1 }
func (t *Term) IsFalse() bool { return t.Op == OConst && t.W == 0 && t.Val == 0 }

type UFDecl struct {
	Name string
	ArgW []int
	W    int
}

// TB is a term builder (one per execution context; not thread safe).
type TB struct {
	tab   map[string]*Term
	next  int
	Vars  map[string]*Term
	UFs   map[string]*UFDecl
	True  *Term
	False *Term
}

func NewTB() *TB {
	tb := &TB{tab: map[string]*Term{}, Vars: map[string]*Term{}, UFs: map[string]*UFDecl{}}
	tb.True = tb.mk(&Term{Op: OConst, W: 0, Val: 1})
	tb.False = tb.mk(&Term{Op: OConst, W: 0, Val: 0})
	return tb
}

func (tb *TB) mk(t *Term) *Term {
	var sb strings.Builder
	fmt.Fprintf(&sb, "%d:%d:%d:%s:%d:%d", t.Op, t.W, t.Val, t.Name, t.A, t.B)
	for _, a := range t.Args {
		fmt.Fprintf(&sb, ",%d", a.ID)
	}
	k := sb.String()
	if e, ok := tb.tab[k]; ok {
		return e
	}
	tb.next++
	t.ID = tb.next
	tb.tab[k] = t
	return t
}

func mask(w int) uint64 {
	if w >= 64 {
		return ^uint64(0)
	}
	return (uint64(1) << uint(w)) - 1
}

func sext64(v uint64, w int) int64 {
	if w >= 64 {
		return int64(v)
	}
	s := uint(64 - w)
	return int64(v<<s) >> s
}

func (tb *TB) Const(w int, v uint64) *Term {
	if w == 0 {
		if v != 0 {
			return tb.True
		}
		return tb.False
	}
	return tb.mk(&Term{Op: OConst, W: w, Val: v & mask(w)})
}

func (tb *TB) Bool(b bool) *Term {
	if b {
		return tb.True
	}
	return tb.False
}

func (tb *TB) Var(name string, w int) *Term {
	if v, ok := tb.Vars[name]; ok {
		if v.W != w {
			panic("var redeclared with different width: " + name)
		}
		return v
	}
	v := tb.mk(&Term{Op: OVar, W: w, Name: name})
	tb.Vars[name] = v
	return v
}

func (tb *TB) UF(name string, w int, args ...*Term) *Term {
	if _, ok := tb.UFs[name]; !ok {
		d := &UFDecl{Name: name, W: w}
		for _, a := range args {
			d.ArgW = append(d.ArgW, a.W)
		}
		tb.UFs[name] = d
	}
	return tb.mk(&Term{Op: OUF, W: w, Name: name, Args: args})
}

func (tb *TB) Not(a *Term) *Term {
	if a.IsConst() {
		return tb.Bool(a.Val == 0)
	}
	if a.Op == ONot {
		return a.Args[0]
	}
	return tb.mk(&Term{Op: ONot, Args: []*Term{a}})
}

func (tb *TB) And(a, b *Term) *Term {
	if a.IsConst() {
		if a.Val == 0 {
			return tb.False
		}
		return b
	}
	if b.IsConst() {
		if b.Val == 0 {
			return tb.False
		}
		return a
	}
	if a == b {
		return a
	}
	if (a.Op == ONot && a.Args[0] == b) || (b.Op == ONot && b.Args[0] == a) {
		return tb.False
	}
	if a.ID > b.ID {
		a, b = b, a
	}
	return tb.mk(&Term{Op: OAnd, Args: []*Term{a, b}})
}

func (tb *TB) Or(a, b *Term) *Term {
	if a.IsConst() {
		if a.Val == 1 {
			return tb.True
		}
		return b
	}
	if b.IsConst() {
		if b.Val == 1 {
			return tb.True
		}
		return a
	}
	if a == b {
		return a
	}
	if (a.Op == ONot && a.Args[0] == b) || (b.Op == ONot && b.Args[0] == a) {
		return tb.True
	}
	if a.ID > b.ID {
		a, b = b, a
	}
	return tb.mk(&Term{Op: OOr, Args: []*Term{a, b}})
}

func (tb *TB) Implies(a, b *Term) *Term { return tb.Or(tb.Not(a), b) }

func (tb *TB) Ite(c, a, b *Term) *Term {
	if c.IsConst() {
		if c.Val == 1 {
			return a
		}
		return b
	}
	if a == b {
		return a
	}
	if a.W != b.W {
		panic(fmt.Sprintf("ite width mismatch %d %d", a.W, b.W))
	}
	if a.W == 0 {
		if a.IsConst() && b.IsConst() {
			if a.Val == 1 {
				return c
			}
			return tb.Not(c)
		}
		if a.IsTrue() {
			return tb.Or(c, b)
		}
		if a.IsFalse() {
			return tb.And(tb.Not(c), b)
		}
		if b.IsTrue() {
			return tb.Or(tb.Not(c), a)
		}
		if b.IsFalse() {
			return tb.And(c, a)
		}
	}
	if c.Op == ONot {
		return tb.Ite(c.Args[0], b, a)
	}
	// ite(c, x, ite(c, y, z)) = ite(c, x, z)
	if b.Op == OIte && b.Args[0] == c {
		return tb.Ite(c, a, b.Args[2])
	}
	if a.Op == OIte && a.Args[0] == c {
		return tb.Ite(c, a.Args[1], b)
	}
	return tb.mk(&Term{Op: OIte, W: a.W, Args: []*Term{c, a, b}})
}

// splitAddConst decomposes t into (base, const) with t = base + const (base may be nil for pure constant).
func splitAddConst(t *Term) (*Term, uint64) {
	if t.Op == OConst {
		return nil, t.Val
	}
	if t.Op == OAdd && t.Args[1].Op == OConst {
		return t.Args[0], t.Args[1].Val
	}
	return t, 0
}

// linear decomposes t (width w) into sum(coeff_i * atom_i) + k modulo 2^w, looking through
// bvadd, bvsub, shl-by-constant and mul-by-constant.
func linear(t *Term, mult uint64, acc map[*Term]uint64, k *uint64, depth int) {
	m := mask(t.W)
	switch {
	case t.Op == OConst:
		*k = (*k + mult*t.Val) & m
		return
	case depth > 40:
	case t.Op == OAdd:
		linear(t.Args[0], mult, acc, k, depth+1)
		linear(t.Args[1], mult, acc, k, depth+1)
		return
	case t.Op == OSub:
		linear(t.Args[0], mult, acc, k, depth+1)
		linear(t.Args[1], (-mult)&m, acc, k, depth+1)
		return
	case t.Op == OShl && t.Args[1].IsConst() && t.Args[1].Val < uint64(t.W):
		linear(t.Args[0], (mult<<t.Args[1].Val)&m, acc, k, depth+1)
		return
	case t.Op == OMul && t.Args[1].IsConst():
		linear(t.Args[0], (mult*t.Args[1].Val)&m, acc, k, depth+1)
		return
	}
	acc[t] = (acc[t] + mult) & m
}

// linEqual decides a == b by linear normalisation when possible: (decided, value).
var noLin = os.Getenv("GOSMT_NOLIN") != ""

func linEqual(a, b *Term) (bool, bool) {
	isLin := func(t *Term) bool { return t.Op == OAdd || t.Op == OSub || t.Op == OShl || t.Op == OMul }
	if !isLin(a) && !isLin(b) {
		return false, false
	}
	acc := map[*Term]uint64{}
	var k uint64
	linear(a, 1, acc, &k, 0)
	linear(b, mask(a.W), acc, &k, 0) // -1
	for _, c := range acc {
		if c != 0 {
			return false, false
		}
	}
	return true, k&mask(a.W) == 0
}

func (tb *TB) Eq(a, b *Term) *Term {
	if a == b {
		return tb.True
	}
	if a.W != b.W {
		panic(fmt.Sprintf("eq width mismatch %d %d (%s vs %s)", a.W, b.W, tb.Show(a), tb.Show(b)))
	}
	if a.IsConst() && b.IsConst() {
		return tb.Bool(a.Val == b.Val)
	}
	if a.W == 0 {
		if a.IsConst() {
			if a.Val == 1 {
				return b
			}
			return tb.Not(b)
		}
		if b.IsConst() {
			if b.Val == 1 {
				return a
			}
			return tb.Not(a)
		}
	} else {
		ba, ca := splitAddConst(a)
		bb, cb := splitAddConst(b)
		if ba == bb && ba != nil {
			return tb.Bool((ca & mask(a.W)) == (cb & mask(a.W)))
		}
		// x == x ^ k  (k != 0) is false
		if b.Op == OBXor && b.Args[1].IsConst() && b.Args[1].Val != 0 && b.Args[0] == a {
			return tb.False
		}
		if a.Op == OBXor && a.Args[1].IsConst() && a.Args[1].Val != 0 && a.Args[0] == b {
			return tb.False
		}
		if dec, v := linEqual(a, b); dec && !noLin {
			return tb.Bool(v)
		}
		// zext(x) == const
		if b.IsConst() && a.Op == OZext {
			iw := a.Args[0].W
			if b.Val > mask(iw) {
				return tb.False
			}
			return tb.Eq(a.Args[0], tb.Const(iw, b.Val))
		}
		if a.IsConst() && b.Op == OZext {
			return tb.Eq(b, a)
		}
		// ite(c, k1, k2) == k with constants
		if b.IsConst() && a.Op == OIte && a.Args[1].IsConst() && a.Args[2].IsConst() {
			return tb.Ite(a.Args[0], tb.Bool(a.Args[1].Val == b.Val), tb.Bool(a.Args[2].Val == b.Val))
		}
		if a.IsConst() && b.Op == OIte {
			return tb.Eq(b, a)
		}
	}
	if a.ID > b.ID {
		a, b = b, a
	}
	return tb.mk(&Term{Op: OEq, Args: []*Term{a, b}})
}

func (tb *TB) Ne(a, b *Term) *Term { return tb.Not(tb.Eq(a, b)) }

// umax returns a cheap syntactic upper bound of an unsigned term.
func umax(t *Term) uint64 {
	switch t.Op {
	case OConst:
		return t.Val
	case OZext:
		return umax(t.Args[0])
	case OBAnd:
		a, b := umax(t.Args[0]), umax(t.Args[1])
		if a < b {
			return a
		}
		return b
	case OLshr:
		if t.Args[1].IsConst() && t.Args[1].Val < 64 {
			return umax(t.Args[0]) >> t.Args[1].Val
		}
		return umax(t.Args[0])
	case OURem:
		if t.Args[1].IsConst() && t.Args[1].Val > 0 {
			return t.Args[1].Val - 1
		}
	case OIte:
		a, b := umax(t.Args[1]), umax(t.Args[2])
		if a > b {
			return a
		}
		return b
	case OConcat:
		hi := umax(t.Args[0])
		lw := t.Args[1].W
		if hi == 0 {
			return umax(t.Args[1])
		}
		if lw < 64 && hi <= mask(64-lw) {
			return hi<<uint(lw) | mask(lw)
		}
	}
	return mask(t.W)
}

func (tb *TB) cmp(op Op, a, b *Term) *Term {
	if a.W != b.W {
		panic(fmt.Sprintf("cmp width mismatch %d %d: %s vs %s", a.W, b.W, tb.Show(a), tb.Show(b)))
	}
	if a.IsConst() && b.IsConst() {
		switch op {
		case OUlt:
			return tb.Bool(a.Val < b.Val)
		case OUle:
			return tb.Bool(a.Val <= b.Val)
		case OSlt:
			return tb.Bool(sext64(a.Val, a.W) < sext64(b.Val, a.W))
		case OSle:
			return tb.Bool(sext64(a.Val, a.W) <= sext64(b.Val, a.W))
		}
	}
	if a == b {
		return tb.Bool(op == OUle || op == OSle)
	}
	if b.IsConst() && a.Op == OIte && a.Args[1].IsConst() && a.Args[2].IsConst() {
		return tb.Ite(a.Args[0], tb.cmp(op, a.Args[1], b), tb.cmp(op, a.Args[2], b))
	}
	if a.IsConst() && b.Op == OIte && b.Args[1].IsConst() && b.Args[2].IsConst() {
		return tb.Ite(b.Args[0], tb.cmp(op, a, b.Args[1]), tb.cmp(op, a, b.Args[2]))
	}
	switch op {
	case OUlt:
		if b.IsConst() && b.Val == 0 {
			return tb.False
		}
		if b.IsConst() && umax(a) < b.Val {
			return tb.True
		}
		if a.IsConst() && a.Val == mask(a.W) {
			return tb.False
		}
	case OUle:
		if a.IsConst() && a.Val == 0 {
			return tb.True
		}
		if b.IsConst() && umax(a) <= b.Val {
			return tb.True
		}
		if b.IsConst() && b.Val == mask(b.W) {
			return tb.True
		}
	case OSlt, OSle:
		// both provably non-negative -> unsigned compare
		sm := mask(a.W) >> 1
		if umax(a) <= sm && umax(b) <= sm {
			if op == OSlt {
				return tb.cmp(OUlt, a, b)
			}
			return tb.cmp(OUle, a, b)
		}
	}
	return tb.mk(&Term{Op: op, Args: []*Term{a, b}})
}

func (tb *TB) Ult(a, b *Term) *Term { return tb.cmp(OUlt, a, b) }
func (tb *TB) Ule(a, b *Term) *Term { return tb.cmp(OUle, a, b) }
func (tb *TB) Slt(a, b *Term) *Term { return tb.cmp(OSlt, a, b) }
func (tb *TB) Sle(a, b *Term) *Term { return tb.cmp(OSle, a, b) }

func foldBin(op Op, w int, x, y uint64) (uint64, bool) {
	m := mask(w)
	switch op {
	case OAdd:
		return (x + y) & m, true
	case OSub:
		return (x - y) & m, true
	case OMul:
		return (x * y) & m, true
	case OUDiv:
		if y == 0 {
			return m, true
		}
		return x / y, true
	case OURem:
		if y == 0 {
			return x, true
		}
		return x % y, true
	case OSDiv:
		sx, sy := sext64(x, w), sext64(y, w)
		if sy == 0 {
			if sx >= 0 {
				return m, true
			}
			return 1, true
		}
		if sy == -1 {
			return uint64(-sx) & m, true
		}
		return uint64(sx/sy) & m, true
	case OSRem:
		sx, sy := sext64(x, w), sext64(y, w)
		if sy == 0 {
			return x, true
		}
		if sy == -1 {
			return 0, true
		}
		return uint64(sx%sy) & m, true
	case OBAnd:
		return x & y, true
	case OBOr:
		return x | y, true
	case OBXor:
		return x ^ y, true
	case OShl:
		if y >= uint64(w) {
			return 0, true
		}
		return (x << y) & m, true
	case OLshr:
		if y >= uint64(w) {
			return 0, true
		}
		return x >> y, true
	case OAshr:
		sx := sext64(x, w)
		if y >= uint64(w) {
			y = uint64(w - 1)
		}
		return uint64(sx>>y) & m, true
	}
	return 0, false
}

func (tb *TB) Bin(op Op, a, b *Term) *Term {
	if a.W != b.W || a.W == 0 {
		panic(fmt.Sprintf("bin %s width mismatch %d %d: %s ; %s", opNames[op], a.W, b.W, tb.Show(a), tb.Show(b)))
	}
	w := a.W
	if a.IsConst() && b.IsConst() {
		v, _ := foldBin(op, w, a.Val, b.Val)
		return tb.Const(w, v)
	}
	if b.IsConst() && a.Op == OIte && a.Args[1].IsConst() && a.Args[2].IsConst() {
		return tb.Ite(a.Args[0], tb.Bin(op, a.Args[1], b), tb.Bin(op, a.Args[2], b))
	}
	if a.IsConst() && b.Op == OIte && b.Args[1].IsConst() && b.Args[2].IsConst() {
		return tb.Ite(b.Args[0], tb.Bin(op, a, b.Args[1]), tb.Bin(op, a, b.Args[2]))
	}
	switch op {
	case OAdd:
		if a.IsConst() {
			a, b = b, a
		}
		if b.IsConst() {
			if b.Val == 0 {
				return a
			}
			if a.Op == OAdd && a.Args[1].IsConst() {
				return tb.Bin(OAdd, a.Args[0], tb.Const(w, a.Args[1].Val+b.Val))
			}
			// ite(c,k1,k2)+k -> ite(c,k1+k,k2+k)
			if a.Op == OIte && a.Args[1].IsConst() && a.Args[2].IsConst() {
				return tb.Ite(a.Args[0], tb.Const(w, a.Args[1].Val+b.Val), tb.Const(w, a.Args[2].Val+b.Val))
			}
		} else {
			// (x + c1) + y  -> (x + y) + c1
			if a.Op == OAdd && a.Args[1].IsConst() {
				return tb.Bin(OAdd, tb.Bin(OAdd, a.Args[0], b), a.Args[1])
			}
			if b.Op == OAdd && b.Args[1].IsConst() {
				return tb.Bin(OAdd, tb.Bin(OAdd, a, b.Args[0]), b.Args[1])
			}
			// x + (y - x) -> y
			if b.Op == OSub && b.Args[1] == a {
				return b.Args[0]
			}
			if a.Op == OSub && a.Args[1] == b {
				return a.Args[0]
			}
			if a.ID > b.ID {
				a, b = b, a
			}
		}
	case OSub:
		if b.IsConst() {
			return tb.Bin(OAdd, a, tb.Const(w, -b.Val))
		}
		if a == b {
			return tb.Const(w, 0)
		}
		// (x + c) - x -> c ; (x+c1) - (x+c2) -> c1-c2
		ba, ca := splitAddConst(a)
		bb, cb := splitAddConst(b)
		if ba != nil && ba == bb {
			return tb.Const(w, ca-cb)
		}
		if bb != nil && cb != 0 {
			// a - (y + c) -> (a - y) - c
			return tb.Bin(OAdd, tb.Bin(OSub, a, bb), tb.Const(w, -cb))
		}
		if ba != nil && ca != 0 && !a.IsConst() {
			return tb.Bin(OAdd, tb.Bin(OSub, ba, b), tb.Const(w, ca))
		}
		// (x + y) - y -> x
		if a.Op == OAdd {
			if a.Args[1] == b {
				return a.Args[0]
			}
			if a.Args[0] == b {
				return a.Args[1]
			}
		}
		// x - (x - y) -> y
		if b.Op == OSub && b.Args[0] == a {
			return b.Args[1]
		}
	case OMul:
		if a.IsConst() {
			a, b = b, a
		}
		if b.IsConst() {
			if b.Val == 0 {
				return b
			}
			if b.Val == 1 {
				return a
			}
			if bits.OnesCount64(b.Val) == 1 {
				return tb.Bin(OShl, a, tb.Const(w, uint64(bits.TrailingZeros64(b.Val))))
			}
		} else if a.ID > b.ID {
			a, b = b, a
		}
	case OUDiv:
		if b.IsConst() && b.Val == 1 {
			return a
		}
		if b.IsConst() && bits.OnesCount64(b.Val) == 1 {
			return tb.Bin(OLshr, a, tb.Const(w, uint64(bits.TrailingZeros64(b.Val))))
		}
	case OURem:
		if b.IsConst() && b.Val != 0 && bits.OnesCount64(b.Val) == 1 {
			return tb.Bin(OBAnd, a, tb.Const(w, b.Val-1))
		}
		if b.IsConst() && b.Val != 0 && umax(a) < b.Val {
			return a
		}
	case OSDiv:
		if b.IsConst() && b.Val == 1 {
			return a
		}
		sm := mask(w) >> 1
		if umax(a) <= sm && umax(b) <= sm {
			return tb.Bin(OUDiv, a, b)
		}
	case OSRem:
		sm := mask(w) >> 1
		if umax(a) <= sm && umax(b) <= sm {
			return tb.Bin(OURem, a, b)
		}
	case OBAnd:
		if a.IsConst() {
			a, b = b, a
		}
		if b.IsConst() {
			if b.Val == 0 {
				return b
			}
			if b.Val == mask(w) {
				return a
			}
			if umax(a) <= b.Val && bits.OnesCount64(b.Val+1) == 1 {
				return a
			}
			if a.Op == OBAnd && a.Args[1].IsConst() {
				return tb.Bin(OBAnd, a.Args[0], tb.Const(w, a.Args[1].Val&b.Val))
			}
			// (zext x) & m
			if a.Op == OZext && b.Val <= mask(a.Args[0].W) {
				return tb.Zext(tb.Bin(OBAnd, a.Args[0], tb.Const(a.Args[0].W, b.Val)), w)
			}
		} else {
			if a == b {
				return a
			}
			if a.ID > b.ID {
				a, b = b, a
			}
		}
	case OBOr:
		if a.IsConst() {
			a, b = b, a
		}
		if b.IsConst() {
			if b.Val == 0 {
				return a
			}
			if b.Val == mask(w) {
				return b
			}
		} else {
			if a == b {
				return a
			}
			if a.ID > b.ID {
				a, b = b, a
			}
		}
	case OBXor:
		if a.IsConst() {
			a, b = b, a
		}
		if b.IsConst() {
			if b.Val == 0 {
				return a
			}
			if b.Val == mask(w) {
				return tb.BNot(a)
			}
		} else {
			if a == b {
				return tb.Const(w, 0)
			}
			if a.ID > b.ID {
				a, b = b, a
			}
		}
	case OShl, OLshr, OAshr:
		if b.IsConst() {
			if b.Val == 0 {
				return a
			}
			if b.Val >= uint64(w) && op != OAshr {
				return tb.Const(w, 0)
			}
			if op == OLshr && umax(a)>>b.Val == 0 {
				return tb.Const(w, 0)
			}
			if a.Op == op && a.Args[1].IsConst() && op != OAshr {
				s := a.Args[1].Val + b.Val
				if s >= uint64(w) {
					return tb.Const(w, 0)
				}
				return tb.Bin(op, a.Args[0], tb.Const(w, s))
			}
		}
		if a.IsConst() && a.Val == 0 {
			return a
		}
		if op == OAshr && umax(a) <= mask(w)>>1 {
			return tb.Bin(OLshr, a, b)
		}
	}
	return tb.mk(&Term{Op: op, W: w, Args: []*Term{a, b}})
}

func (tb *TB) Add(a, b *Term) *Term { return tb.Bin(OAdd, a, b) }
func (tb *TB) Sub(a, b *Term) *Term { return tb.Bin(OSub, a, b) }

func (tb *TB) BNot(a *Term) *Term {
	if a.IsConst() {
		return tb.Const(a.W, ^a.Val)
	}
	if a.Op == OBNot {
		return a.Args[0]
	}
	return tb.mk(&Term{Op: OBNot, W: a.W, Args: []*Term{a}})
}

func (tb *TB) Neg(a *Term) *Term {
	if a.IsConst() {
		return tb.Const(a.W, -a.Val)
	}
	return tb.Bin(OSub, tb.Const(a.W, 0), a)
}

func (tb *TB) Extract(a *Term, hi, lo int) *Term {
	w := hi - lo + 1
	if lo == 0 && w == a.W {
		return a
	}
	if a.IsConst() {
		return tb.Const(w, a.Val>>uint(lo))
	}
	switch a.Op {
	case OZext:
		iw := a.Args[0].W
		if hi < iw {
			return tb.Extract(a.Args[0], hi, lo)
		}
		if lo >= iw {
			return tb.Const(w, 0)
		}
		if lo == 0 {
			return tb.Zext(a.Args[0], w)
		}
	case OSext:
		iw := a.Args[0].W
		if hi < iw {
			return tb.Extract(a.Args[0], hi, lo)
		}
	case OExtract:
		return tb.Extract(a.Args[0], hi+a.B, lo+a.B)
	case OConcat:
		lw := a.Args[1].W
		if hi < lw {
			return tb.Extract(a.Args[1], hi, lo)
		}
		if lo >= lw {
			return tb.Extract(a.Args[0], hi-lw, lo-lw)
		}
	case OBAnd, OBOr, OBXor:
		if lo == 0 {
			return tb.Bin(a.Op, tb.Extract(a.Args[0], hi, 0), tb.Extract(a.Args[1], hi, 0))
		}
	case OAdd, OSub, OMul:
		if lo == 0 {
			return tb.Bin(a.Op, tb.Extract(a.Args[0], hi, 0), tb.Extract(a.Args[1], hi, 0))
		}
	case OIte:
		if a.Args[1].IsConst() || a.Args[2].IsConst() {
			return tb.Ite(a.Args[0], tb.Extract(a.Args[1], hi, lo), tb.Extract(a.Args[2], hi, lo))
		}
	}
	return tb.mk(&Term{Op: OExtract, W: w, Args: []*Term{a}, A: hi, B: lo})
}

func (tb *TB) Zext(a *Term, w int) *Term {
	if w == a.W {
		return a
	}
	if w < a.W {
		return tb.Extract(a, w-1, 0)
	}
	if a.IsConst() {
		return tb.Const(w, a.Val)
	}
	if a.Op == OZext {
		return tb.Zext(a.Args[0], w)
	}
	if a.Op == OIte && a.Args[1].IsConst() && a.Args[2].IsConst() {
		return tb.Ite(a.Args[0], tb.Zext(a.Args[1], w), tb.Zext(a.Args[2], w))
	}
	return tb.mk(&Term{Op: OZext, W: w, Args: []*Term{a}, A: w - a.W})
}

func (tb *TB) Sext(a *Term, w int) *Term {
	if w == a.W {
		return a
	}
	if w < a.W {
		return tb.Extract(a, w-1, 0)
	}
	if a.IsConst() {
		return tb.Const(w, uint64(sext64(a.Val, a.W)))
	}
	if umax(a) <= mask(a.W)>>1 {
		return tb.Zext(a, w)
	}
	if a.Op == OIte && a.Args[1].IsConst() && a.Args[2].IsConst() {
		return tb.Ite(a.Args[0], tb.Sext(a.Args[1], w), tb.Sext(a.Args[2], w))
	}
	return tb.mk(&Term{Op: OSext, W: w, Args: []*Term{a}, A: w - a.W})
}

func (tb *TB) Concat(a, b *Term) *Term {
	if a.IsConst() && b.IsConst() && a.W+b.W <= 64 {
		return tb.Const(a.W+b.W, a.Val<<uint(b.W)|b.Val)
	}
	if a.IsConst() && a.Val == 0 {
		return tb.Zext(b, a.W+b.W)
	}
	return tb.mk(&Term{Op: OConcat, W: a.W + b.W, Args: []*Term{a, b}})
}

// ---------------------------------------------------------------------------
// Evaluation under a model

type Model struct {
	Vars map[string]uint64
	UFs  map[string]map[string]uint64 // name -> "a,b,c" -> value ; missing = default
	UFDefault map[string]uint64
}

func ufKey(args []uint64) string {
	var sb strings.Builder
	for i, a := range args {
		if i > 0 {
			sb.WriteByte(',')
		}
		fmt.Fprintf(&sb, "%d", a)
	}
	return sb.String()
}

// Eval evaluates t under m; variables absent from the model evaluate to 0.
func (tb *TB) Eval(t *Term, m *Model, memo map[int]uint64) uint64 {
	if t.Op == OConst {
		return t.Val
	}
	if v, ok := memo[t.ID]; ok {
		return v
	}
	var r uint64
	switch t.Op {
	case OVar:
		r = m.Vars[t.Name] & mask64b(t.W)
	case OUF:
		args := make([]uint64, len(t.Args))
		for i, a := range t.Args {
			args[i] = tb.Eval(a, m, memo)
		}
		if mm, ok := m.UFs[t.Name]; ok {
			if v, ok := mm[ufKey(args)]; ok {
				r = v
			} else {
				r = m.UFDefault[t.Name]
			}
		} else {
			r = m.UFDefault[t.Name]
		}
		r &= mask64b(t.W)
	case ONot:
		r = 1 ^ tb.Eval(t.Args[0], m, memo)
	case OAnd:
		r = tb.Eval(t.Args[0], m, memo) & tb.Eval(t.Args[1], m, memo)
	case OOr:
		r = tb.Eval(t.Args[0], m, memo) | tb.Eval(t.Args[1], m, memo)
	case OIte:
		if tb.Eval(t.Args[0], m, memo) == 1 {
			r = tb.Eval(t.Args[1], m, memo)
		} else {
			r = tb.Eval(t.Args[2], m, memo)
		}
	case OEq:
		r = b2u(tb.Eval(t.Args[0], m, memo) == tb.Eval(t.Args[1], m, memo))
	case OUlt:
		r = b2u(tb.Eval(t.Args[0], m, memo) < tb.Eval(t.Args[1], m, memo))
	case OUle:
		r = b2u(tb.Eval(t.Args[0], m, memo) <= tb.Eval(t.Args[1], m, memo))
	case OSlt:
		w := t.Args[0].W
		r = b2u(sext64(tb.Eval(t.Args[0], m, memo), w) < sext64(tb.Eval(t.Args[1], m, memo), w))
	case OSle:
		w := t.Args[0].W
		r = b2u(sext64(tb.Eval(t.Args[0], m, memo), w) <= sext64(tb.Eval(t.Args[1], m, memo), w))
	case OBNot:
		r = ^tb.Eval(t.Args[0], m, memo) & mask(t.W)
	case ONeg:
		r = -tb.Eval(t.Args[0], m, memo) & mask(t.W)
	case OConcat:
		r = tb.Eval(t.Args[0], m, memo)<<uint(t.Args[1].W) | tb.Eval(t.Args[1], m, memo)
	case OExtract:
		r = (tb.Eval(t.Args[0], m, memo) >> uint(t.B)) & mask(t.W)
	case OZext:
		r = tb.Eval(t.Args[0], m, memo)
	case OSext:
		r = uint64(sext64(tb.Eval(t.Args[0], m, memo), t.Args[0].W)) & mask(t.W)
	default:
		x := tb.Eval(t.Args[0], m, memo)
		y := tb.Eval(t.Args[1], m, memo)
		v, ok := foldBin(t.Op, t.W, x, y)
		if !ok {
			panic("eval: unknown op")
		}
		r = v
	}
	memo[t.ID] = r
	return r
}

func mask64b(w int) uint64 {
	if w == 0 {
		return 1
	}
	return mask(w)
}

func b2u(b bool) uint64 {
	if b {
		return 1
	}
	return 0
}

// ---------------------------------------------------------------------------
// Printing

func sortName(w int) string {
	if w == 0 {
		return "Bool"
	}
	return fmt.Sprintf("(_ BitVec %d)", w)
}

func constStr(w int, v uint64) string {
	if w == 0 {
		if v != 0 {
			return "true"
		}
		return "false"
	}
	if w%4 == 0 {
		return fmt.Sprintf("#x%0*x", w/4, v)
	}
	return fmt.Sprintf("#b%0*b", w, v)
}

func smtName(n string) string { return "|" + n + "|" }

// Script builds a self-contained SMT-LIB2 script asserting all of 'asserts'.
// Shared sub-terms are emitted once as define-fun.
func (tb *TB) Script(asserts []*Term, getVals []*Term) string {
	var sb strings.Builder
	seen := map[int]bool{}
	var order []*Term
	var visit func(t *Term)
	visit = func(t *Term) {
		if seen[t.ID] {
			return
		}
		seen[t.ID] = true
		for _, a := range t.Args {
			visit(a)
		}
		order = append(order, t)
	}
	for _, a := range asserts {
		visit(a)
	}
	for _, a := range getVals {
		visit(a)
	}
	// declarations
	var vars []*Term
	ufs := map[string]bool{}
	refc := map[int]int{}
	for _, t := range order {
		if t.Op == OVar {
			vars = append(vars, t)
		}
		if t.Op == OUF {
			ufs[t.Name] = true
		}
		for _, a := range t.Args {
			refc[a.ID]++
		}
	}
	sort.Slice(vars, func(i, j int) bool { return vars[i].Name < vars[j].Name })
	for _, v := range vars {
		fmt.Fprintf(&sb, "(declare-fun %s () %s)\n", smtName(v.Name), sortName(v.W))
	}
	var ufn []string
	for n := range ufs {
		ufn = append(ufn, n)
	}
	sort.Strings(ufn)
	for _, n := range ufn {
		d := tb.UFs[n]
		var as []string
		for _, w := range d.ArgW {
			as = append(as, sortName(w))
		}
		fmt.Fprintf(&sb, "(declare-fun %s (%s) %s)\n", smtName(n), strings.Join(as, " "), sortName(d.W))
	}
	names := map[int]string{}
	var expr func(t *Term) string
	ref := func(t *Term) string {
		if n, ok := names[t.ID]; ok {
			return n
		}
		return expr(t)
	}
	expr = func(t *Term) string {
		switch t.Op {
		case OConst:
			return constStr(t.W, t.Val)
		case OVar:
			return smtName(t.Name)
		case OUF:
			if len(t.Args) == 0 {
				return smtName(t.Name)
			}
			s := "(" + smtName(t.Name)
			for _, a := range t.Args {
				s += " " + ref(a)
			}
			return s + ")"
		case OExtract:
			return fmt.Sprintf("((_ extract %d %d) %s)", t.A, t.B, ref(t.Args[0]))
		case OZext:
			return fmt.Sprintf("((_ zero_extend %d) %s)", t.A, ref(t.Args[0]))
		case OSext:
			return fmt.Sprintf("((_ sign_extend %d) %s)", t.A, ref(t.Args[0]))
		default:
			s := "(" + opNames[t.Op]
			for _, a := range t.Args {
				s += " " + ref(a)
			}
			return s + ")"
		}
	}
	// z3 expands 0-ary define-fun macros at every use: with deep sharing (unrolled transition systems) that is
	// exponential. Large scripts therefore name shared nodes with declare-const + defining equation instead.
	flat := len(order) > 3000
	for _, t := range order {
		if t.Op == OConst || t.Op == OVar {
			continue
		}
		if refc[t.ID] > 1 || len(t.Args) > 0 && t.Op != ONot {
			// name every composite node: keeps lines short and avoids deep nesting
			n := fmt.Sprintf("t%d", t.ID)
			if flat && refc[t.ID] > 1 {
				fmt.Fprintf(&sb, "(declare-const %s %s)\n(assert (= %s %s))\n", n, sortName(t.W), n, expr(t))
			} else {
				fmt.Fprintf(&sb, "(define-fun %s () %s %s)\n", n, sortName(t.W), expr(t))
			}
			names[t.ID] = n
		}
	}
	for _, a := range asserts {
		fmt.Fprintf(&sb, "(assert %s)\n", ref(a))
	}
	for _, t := range order {
		if (t.Op == OShl || t.Op == OLshr || t.Op == OAshr) && !t.Args[1].IsConst() || (t.Op == OMul || t.Op == OUDiv || t.Op == OSDiv || t.Op == OURem || t.Op == OSRem) && !t.Args[1].IsConst() || t.Op == OUF {
			sb.WriteString("; symshift\n") // marker: bit-level query, integer encoding unlikely to help
			break
		}
	}
	return sb.String()
}

// Show renders a term for humans (bounded depth).
func (tb *TB) Show(t *Term) string { return showDepth(t, 6) }

func showDepth(t *Term, d int) string {
	if t == nil {
		return "<nil>"
	}
	switch t.Op {
	case OConst:
		if t.W == 0 {
			return constStr(0, t.Val)
		}
		return fmt.Sprintf("%d:%d", t.Val, t.W)
	case OVar:
		return t.Name
	}
	if d == 0 {
		return fmt.Sprintf("t%d", t.ID)
	}
	var name string
	switch t.Op {
	case OUF:
		name = t.Name
	case OExtract:
		name = fmt.Sprintf("extract[%d:%d]", t.A, t.B)
	case OZext:
		name = "zext"
	case OSext:
		name = "sext"
	default:
		name = opNames[t.Op]
	}
	s := "(" + name
	for _, a := range t.Args {
		s += " " + showDepth(a, d-1)
	}
	return s + ")"
}

// Atoms collects the Var and UF-application terms reachable from ts.
func Atoms(ts []*Term) (vars []*Term, ufapps []*Term) {
	seen := map[int]bool{}
	var visit func(t *Term)
	visit = func(t *Term) {
		if seen[t.ID] {
			return
		}
		seen[t.ID] = true
		for _, a := range t.Args {
			visit(a)
		}
		if t.Op == OVar {
			vars = append(vars, t)
		} else if t.Op == OUF {
			ufapps = append(ufapps, t)
		}
	}
	for _, t := range ts {
		visit(t)
	}
	return
}

// Subst rebuilds t with the given variable terms replaced (memoised).
func (tb *TB) Subst(t *Term, m map[*Term]*Term, memo map[*Term]*Term) *Term {
	if r, ok := m[t]; ok {
		return r
	}
	if len(t.Args) == 0 {
		return t
	}
	if r, ok := memo[t]; ok {
		return r
	}
	args := make([]*Term, len(t.Args))
	changed := false
	for i, a := range t.Args {
		args[i] = tb.Subst(a, m, memo)
		if args[i] != a {
			changed = true
		}
	}
	var r *Term
	if !changed {
		r = t
	} else {
		switch t.Op {
		case ONot:
			r = tb.Not(args[0])
		case OAnd:
			r = tb.And(args[0], args[1])
		case OOr:
			r = tb.Or(args[0], args[1])
		case OIte:
			r = tb.Ite(args[0], args[1], args[2])
		case OEq:
			r = tb.Eq(args[0], args[1])
		case OUlt, OUle, OSlt, OSle:
			r = tb.cmp(t.Op, args[0], args[1])
		case OBNot:
			r = tb.BNot(args[0])
		case OExtract:
			r = tb.Extract(args[0], t.A, t.B)
		case OZext:
			r = tb.Zext(args[0], t.W)
		case OSext:
			r = tb.Sext(args[0], t.W)
		case OConcat:
			r = tb.Concat(args[0], args[1])
		case OUF:
			r = tb.UF(t.Name, t.W, args...)
		default:
			r = tb.Bin(t.Op, args[0], args[1])
		}
	}
	memo[t] = r
	return r
}
