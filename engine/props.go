package main

// Property-level orchestration: registry -> harness runs -> replay -> known findings -> evidence -> exit code.

import (
	"sync"
	"encoding/json"
	"fmt"
	"math/rand"
	"os"
	"path/filepath"
	"sort"
	"strconv"
	"strings"
	"time"
)

type PropSpec struct {
	Level       string        `json:"level"`
	Packages    []string      `json:"packages"`
	Quick       []HarnessSpec `json:"quick"`
	Thorough    []HarnessSpec `json:"thorough"`
	Explanation string        `json:"explanation"`
	Assumptions []string      `json:"assumptions"`
	Outside     []string      `json:"outside_claim"`
	Stubs       []string      `json:"stubs"`
	Bounds      string        `json:"bounds"`
	Kind        string        `json:"kind"`
	UseRef      bool          `json:"use_reference"`
}

type KnownFinding struct {
	Property string   `json:"property"`
	ID       string   `json:"id"`
	Harness  string   `json:"harness"`
	Label    string   `json:"label"`
	Kind     string   `json:"kind,omitempty"`
	Where    []string `json:"where,omitempty"` // conditions on replay inputs: "name op value"
	What     string   `json:"what"`
	Status   string   `json:"status"` // "known" or "fixed"
	Commit   string   `json:"commit,omitempty"`
}

func loadRegistry() (map[string]*PropSpec, error) {
	b, err := os.ReadFile(filepath.Join(harnessDir, "registry.json"))
	if err != nil {
		return nil, err
	}
	reg := map[string]*PropSpec{}
	if err := json.Unmarshal(b, &reg); err != nil {
		return nil, fmt.Errorf("registry.json: %v", err)
	}
	return reg, nil
}

func loadKnown() []KnownFinding {
	b, err := os.ReadFile(filepath.Join(verifDir, "known_findings.json"))
	if err != nil {
		return nil
	}
	var k struct {
		Findings []KnownFinding `json:"findings"`
	}
	json.Unmarshal(b, &k)
	return k.Findings
}

func matchWhere(conds []string, in map[string]uint64) bool {
	for _, cnd := range conds {
		f := strings.Fields(cnd)
		if len(f) != 3 {
			return false
		}
		lhs, ok := in[f[0]]
		if !ok {
			return false
		}
		var rhs uint64
		if v, ok := in[f[2]]; ok {
			rhs = v
		} else {
			r, err := strconv.ParseInt(f[2], 0, 64)
			if err != nil {
				return false
			}
			rhs = uint64(r)
		}
		l, r := int64(lhs), int64(rhs)
		var res bool
		switch f[1] {
		case "==":
			res = l == r
		case "!=":
			res = l != r
		case "<":
			res = l < r
		case "<=":
			res = l <= r
		case ">":
			res = l > r
		case ">=":
			res = l >= r
		default:
			return false
		}
		if !res {
			return false
		}
	}
	return true
}

func matchKnown(known []KnownFinding, prop string, v *Violation) *KnownFinding {
	for i := range known {
		k := &known[i]
		if k.Status != "known" || k.Property != prop || k.Harness != v.Harness {
			continue
		}
		if k.Label != "" && k.Label != v.Label {
			continue
		}
		if k.Kind != "" && k.Kind != v.Kind {
			continue
		}
		if !matchWhere(k.Where, v.Inputs) {
			continue
		}
		return k
	}
	return nil
}

func cmdCheck(args []string) int {
	if len(args) < 1 {
		fmt.Println("usage: gosmt check <property> [quick|thorough]")
		return 2
	}
	prop := args[0]
	tier := "quick"
	if len(args) > 1 {
		tier = args[1]
	}
	if t := os.Getenv("VERIF_TIER"); t != "" && len(args) < 2 {
		tier = t
	}
	seed := int64(1)
	if s := os.Getenv("VERIF_SEED"); s != "" {
		if v, err := strconv.ParseInt(s, 10, 64); err == nil {
			seed = v
		}
	}
	t0 := time.Now()
	evPath := filepath.Join(outDir, "evidence", prop+".json")
	os.MkdirAll(filepath.Dir(evPath), 0o755)
	reg, err := loadRegistry()
	if err != nil {
		fmt.Println("ERROR:", err)
		return 2
	}
	ps, ok := reg[prop]
	if !ok {
		fmt.Println("ERROR: property not in registry:", prop)
		return 2
	}
	useRef = ps.UseRef
	if ps.Kind == "protocol" {
		return runProto(prop, tier, seed)
	}
	specs := ps.Quick
	if tier == "thorough" && len(ps.Thorough) > 0 {
		specs = ps.Thorough
	}
	scratch, _ := os.MkdirTemp("", "gosmt-*")
	defer os.RemoveAll(scratch)
	l, err := loadProgram(ps.Packages, scratch)
	if err != nil {
		fmt.Println("ERROR: cannot load /repo:", err)
		writeEvidence(evPath, prop, tier, seed, ps, nil, nil, time.Since(t0).Seconds(), 0, []string{"load error: " + err.Error()}, nil)
		return 2
	}
	workers := 16
	if w := os.Getenv("VERIF_WORKERS"); w != "" {
		workers, _ = strconv.Atoi(w)
	}
	dumpDir := ""
	if tier == "thorough" || os.Getenv("VERIF_CROSS") != "" {
		dumpDir = filepath.Join(scratch, "queries")
	} else {
		dumpDir = filepath.Join(scratch, "queries")
	}
	known := loadKnown()
	var reports []*HarnessReport
	nviol := 0
	var knownSeen []string
	var problems []string
	replayRoot := filepath.Join(outDir, "replays", prop)
	os.RemoveAll(replayRoot)
	exit := 0
	// all harnesses run concurrently; the global semaphore bounds the number of solver processes
	reps := make([]*HarnessReport, len(specs))
	var hwg sync.WaitGroup
	for i, spec := range specs {
		hwg.Add(1)
		go func(i int, spec HarnessSpec) {
			defer hwg.Done()
			reps[i] = runHarness(l, spec, workers, false, dumpDir)
			fmt.Printf("[%s %s] harness %s/%s %v: cases=%d paths=%d outcomes=%v verdict-queries=%d wall=%.1fs\n", prop, tier, spec.Pkg, spec.Func, spec.Params,
				reps[i].Cases, reps[i].Paths, reps[i].Outcomes, reps[i].VerdictQ, reps[i].WallS)
		}(i, spec)
	}
	hwg.Wait()
	for i, spec := range specs {
		rep := reps[i]
		reports = append(reports, rep)
		for _, u := range rep.Undecided {
			fmt.Printf("    UNDECIDED: %s\n", u)
			problems = append(problems, spec.Func+": undecided: "+u)
		}
		for _, u := range rep.Unsupported {
			fmt.Printf("    UNSUPPORTED: %s\n", u)
			problems = append(problems, spec.Func+": unsupported: "+u)
		}
		for _, m := range rep.ReachMiss {
			fmt.Printf("    VACUITY: reach tag %q not witnessed\n", m)
			problems = append(problems, spec.Func+": reach tag not witnessed: "+m)
		}
		// group violations by label, replay up to 3 per group (choose deterministically by seed)
		groups := map[string][]*Violation{}
		var order []string
		for _, v := range rep.Violations {
			k := v.Kind + "/" + v.Label
			if v.Kind == "panic" {
				k = v.Kind + "/" + firstLine(v.Msg)
			}
			if _, ok := groups[k]; !ok {
				order = append(order, k)
			}
			groups[k] = append(groups[k], v)
		}
		sort.Strings(order)
		rng := rand.New(rand.NewSource(seed))
		for gi, k := range order {
			vs := groups[k]
			rng.Shuffle(len(vs), func(i, j int) { vs[i], vs[j] = vs[j], vs[i] })
			confirmed := false
			for i, v := range vs {
				if i >= 3 {
					break
				}
				dir := filepath.Join(replayRoot, fmt.Sprintf("%s_%d_%d", spec.Func, gi, i))
				if err := prepareReplay(dir, spec, v); err != nil {
					v.Confirmed = "error"
					v.ReplayOut = err.Error()
					continue
				}
				v.Replay = dir
				v.Confirmed, v.ReplayOut = runReplay(dir)
				if v.Confirmed != "yes" {
					os.RemoveAll(dir)
					v.Replay = ""
					continue
				}
				confirmed = true
				if kf := matchKnown(known, prop, v); kf != nil {
					v.Known = kf.ID
					msg := fmt.Sprintf("KNOWN-FINDING: property=%s %s: %s", prop, kf.ID, kf.What)
					if !contains(knownSeen, msg) {
						knownSeen = append(knownSeen, msg)
						fmt.Println(msg)
					}
					os.RemoveAll(dir)
					v.Replay = ""
				} else {
					nviol++
					exit = 1
					fmt.Printf("VIOLATION property=%s replay=%s\n", prop, dir)
					fmt.Printf("    harness=%s %s label=%q %s case=%s\n", spec.Func, v.Kind, v.Label, firstLine(v.Msg), v.Case)
				}
				break
			}
			if !confirmed {
				fmt.Printf("    UNCONFIRMED counterexample (%s) in %s: did not reproduce natively; not reported as violation\n", k, spec.Func)
				problems = append(problems, spec.Func+": unconfirmed counterexample "+k)
			}
		}
	}
	// cross-solver re-decision of a seeded sample (quick) or all (thorough) of the dumped verdict queries
	cross := crossCheck(dumpDir, tier, seed)
	if cross.Disagree > 0 {
		problems = append(problems, fmt.Sprintf("cross-solver disagreement on %d queries", cross.Disagree))
	}
	wall := time.Since(t0).Seconds()
	writeEvidence(evPath, prop, tier, seed, ps, reports, cross, wall, nviol, problems, knownSeen)
	fmt.Printf("[%s %s] done in %.1fs: violations=%d known=%d problems=%d\n", prop, tier, wall, nviol, len(knownSeen), len(problems))
	return exit
}

func firstLine(s string) string {
	if i := strings.IndexByte(s, '\n'); i >= 0 {
		s = s[:i]
	}
	if len(s) > 160 {
		s = s[:160]
	}
	return s
}

func contains(xs []string, s string) bool {
	for _, x := range xs {
		if x == s {
			return true
		}
	}
	return false
}

type CrossResult struct {
	Checked   int            `json:"queries_rechecked"`
	Total     int            `json:"verdict_queries_dumped"`
	Agree     int            `json:"agree"`
	Disagree  int            `json:"disagree"`
	Unknown   int            `json:"other_solver_unknown"`
	BySolver  map[string]int `json:"by_solver"`
	Disagreed []string       `json:"disagreements,omitempty"`
}

// crossCheck re-decides dumped verdict queries (all expected unsat or sat as decided by z3 4.8.12)
// with z3-new and cvc5. The dump only contains the script; z3's own answer is recomputed one-shot.
func crossCheck(dir, tier string, seed int64) *CrossResult {
	res := &CrossResult{BySolver: map[string]int{}}
	ents, err := os.ReadDir(dir)
	if err != nil {
		return res
	}
	var files []string
	for _, e := range ents {
		if strings.HasSuffix(e.Name(), ".smt2") {
			files = append(files, filepath.Join(dir, e.Name()))
		}
	}
	sort.Strings(files)
	res.Total = len(files)
	n := len(files)
	limit := 12
	if tier == "thorough" {
		limit = 200
	}
	if l := os.Getenv("VERIF_CROSS"); l != "" {
		limit, _ = strconv.Atoi(l)
	}
	rng := rand.New(rand.NewSource(seed))
	rng.Shuffle(n, func(i, j int) { files[i], files[j] = files[j], files[i] })
	if n > limit {
		files = files[:limit]
	}
	type out struct {
		f       string
		a, b, c SatResult
	}
	ch := make(chan out, len(files))
	sem := make(chan bool, 8)
	for _, f := range files {
		go func(f string) {
			sem <- true
			defer func() { <-sem }()
			b, _ := os.ReadFile(f)
			a, _ := OneShot("z3-new", string(b), 60)
			b2, _ := OneShot("z3", string(b), 60)
			c2, _ := OneShot("cvc5", string(b), 60)
			ch <- out{f, a, b2, c2}
		}(f)
	}
	for range files {
		o := <-ch
		res.Checked++
		dis := false
		for name, r := range map[string]SatResult{"z3-4.8.12": o.b, "cvc5": o.c} {
			if r == Unknown || o.a == Unknown {
				res.Unknown++
				continue
			}
			res.BySolver[name]++
			if r != o.a {
				dis = true
				res.Disagreed = append(res.Disagreed, fmt.Sprintf("%s: z3-5.1.0=%s %s=%s", filepath.Base(o.f), o.a, name, r))
			}
		}
		if dis {
			res.Disagree++
		} else {
			res.Agree++
		}
	}
	return res
}

func writeEvidence(path, prop, tier string, seed int64, ps *PropSpec, reports []*HarnessReport, cross *CrossResult, wall float64, nviol int, problems, known []string) {
	cov := map[string]any{}
	paths, cases, vq := 0, 0, 0
	distinct := map[string]bool{}
	var samples []any
	var harn []any
	funcs := map[string]bool{}
	for _, r := range reports {
		paths += r.Paths
		cases += r.Cases
		vq += r.VerdictQ
		for k, n := range r.Asserts {
			if n > 0 {
				distinct[r.Spec.Func+"/"+k] = true
			}
		}
		for _, s := range r.Samples {
			if len(samples) < 6 {
				samples = append(samples, map[string]any{"harness": r.Spec.Func, "path": s})
			}
		}
		for _, f := range r.Funcs {
			funcs[f] = true
		}
		harn = append(harn, r)
	}
	var fl []string
	for f := range funcs {
		fl = append(fl, f)
	}
	sort.Strings(fl)
	if len(samples) == 0 {
		samples = append(samples, "no completed path")
	}
	cov["explanation"] = ps.Explanation
	cov["technique"] = "bounded symbolic execution of the real Go SSA (go/ssa) with SMT verdicts (decided by z3 4.8.12 in a portfolio with cvc5's integer encoding of bit-vectors; a seeded sample of the verdict queries is re-decided one-shot by z3 5.1.0, z3 4.8.12 and cvc5 1.0, any disagreement is reported as a problem); counterexamples replayed natively with go test -overlay"
	cov["bounds"] = ps.Bounds
	cov["evaluations"] = paths
	cov["distinct_nontrivial"] = len(distinct)
	cov["rule"] = "evaluations = symbolic paths explored to completion (each covers all inputs satisfying its path condition); distinct_nontrivial = distinct (harness, assertion label) obligations that were reached and decided on at least one path"
	cov["samples"] = samples
	cov["harness_cases"] = cases
	cov["verdict_queries"] = vq
	cov["harnesses"] = harn
	cov["functions_encoded"] = fl
	cov["stubs"] = ps.Stubs
	cov["outside_claim"] = ps.Outside
	cov["solver"] = map[string]any{"queries": globalStats.Queries, "sat": globalStats.Sat, "unsat": globalStats.Unsat, "unknown": globalStats.Unknown,
		"cache_hits": globalStats.CacheHit, "solver_seconds": float64(globalStats.Nanos) / 1e9}
	cov["cross_solver"] = cross
	cov["problems"] = problems
	cov["known_findings_seen"] = known
	cov["repo_source_hash"] = repoHash(ps.Packages)
	if ps.Level == "model_checking" {
		cov["states"] = paths
		cov["transitions"] = vq
		cov["traces_validated_against_impl"] = 0
	}
	if ps.Level == "translation_validation" {
		cov["programs"] = len(distinct)
		cov["disagreements_checked"] = nviol
	}
	ev := map[string]any{"property_id": prop, "tier": tier, "seed": seed, "level": ps.Level, "coverage": cov,
		"assumptions": ps.Assumptions, "wall_s": wall, "violations": nviol}
	writeJSON(path, ev)
}

func repoHash(pkgs []string) string {
	var files []string
	for _, p := range pkgs {
		ents, _ := os.ReadDir(filepath.Join(repoDir, p))
		for _, e := range ents {
			if strings.HasSuffix(e.Name(), ".go") && !strings.HasSuffix(e.Name(), "_test.go") {
				files = append(files, filepath.Join(repoDir, p, e.Name()))
			}
		}
	}
	sort.Strings(files)
	return srcHash(files...)
}

func cmdSelfcheck(args []string) int { return selfcheck() }
