package main

func cmdCheck(args []string) int     { return 0 }
func cmdSelfcheck(args []string) int { return 0 }
