#!/bin/sh
# tools_seed.sh <seed-dir-name> <src-dir> <pkgdir-of-demo> <property> [<property>...]
# 1. confirms the seeded change in a scratch worktree (suite passes with it, demo fails with it / passes without)
# 2. stores it under /verif/seeded/<name>/
# 3. runs the quick checks of the given properties against the scratch worktree (VERIF_REPO), records the verdicts
name=$1; src=$2; pkg=$3; shift 3
export GOFLAGS=-mod=mod GOPROXY=off
wt=/tmp/wtv_$name
out=/tmp/out_$name
rm -rf $out; mkdir -p $out /verif/seeded/$name
git -C /repo worktree remove --force $wt 2>/dev/null
git -C /repo worktree add -q $wt HEAD || exit 2
cp $src/patch.diff /verif/seeded/$name/patch.diff
demo=$(ls $src/*_test.go | head -1)
cp $demo /verif/seeded/$name/demo_test.go
res="{}"
( cd $wt && git apply /verif/seeded/$name/patch.diff ) || { echo "patch does not apply"; exit 2; }
( cd $wt/v2 && go build ./... && go test -count=1 ./... > $out/suite.log 2>&1 ); suite=$?
cp $demo $wt/v2/$pkg/zz_seed_demo_test.go
( cd $wt/v2 && go test -count=1 ./$pkg/ > $out/demo_with.log 2>&1 ); with=$?
( cd $wt && git apply -R /verif/seeded/$name/patch.diff )
( cd $wt/v2 && go test -count=1 ./$pkg/ > $out/demo_without.log 2>&1 ); without=$?
rm -f $wt/v2/$pkg/zz_seed_demo_test.go
( cd $wt && git apply /verif/seeded/$name/patch.diff )
echo "seed $name: suite_with_change_exit=$suite demo_with_change_exit=$with demo_without_change_exit=$without"
verd=""
for p in "$@"; do
  VERIF_REPO=$wt/v2 VERIF_OUT=$out ./check $p quick > $out/check_$p.log 2>&1; e=$?
  v=$(grep -c "^VIOLATION property=$p" $out/check_$p.log)
  echo "   check $p quick on the seeded tree: exit=$e violation_lines=$v $(grep -E 'done in' $out/check_$p.log | tail -1)"
  grep -E "^VIOLATION|^    harness=|obligation" $out/check_$p.log | head -4
  verd="$verd $p:exit=$e:violations=$v"
done
python3 - "$name" "$suite" "$with" "$without" "$verd" "$src" <<'PY'
import json,sys,os
name,suite,w,wo,verd,src=sys.argv[1:7]
meta={}
try: meta=json.load(open(os.path.join(src,'meta.json')))
except Exception as e: meta={"note":"agent meta.json unreadable: "+str(e)}
meta["confirmed_here"]={"existing_suite_with_change":"pass" if suite=="0" else "FAIL","demo_with_change":"fail" if w!="0" else "PASSES (bad seed)","demo_without_change":"pass" if wo=="0" else "FAILS (bad seed)",
  "how":"scratch worktree of /repo HEAD: git apply patch; go build ./... && go test -count=1 ./...; demo copied into the package and run with and without the patch"}
meta["checks_on_seeded_tree"]=verd.split()
json.dump(meta,open(f"/verif/seeded/{name}/meta.json","w"),indent=1)
PY
git -C /repo worktree remove --force $wt
rm -rf $out/replays
