#!/usr/bin/env python3
# Regenerates MANIFEST.json from the per-property metadata below (claimed checks) and properties.jsonl.
import json
props=[json.loads(l) for l in open('/verif/properties.jsonl')]
TECH="symbolic execution of the real Go SSA (go/ssa) + SMT (z3/cvc5), counterexamples replayed natively"
NOTE="Trusted: go/ssa, the executor's SSA semantics (translator self-check + native replay of every counterexample), the SMT solvers (verdict queries re-decided by z3 5.1.0 and cvc5), the stated stub contracts. Everything is bounded as stated in the evidence file (bounds, outside_claim)."
claimed={
 "C14":("other","Inductive one-step refinement of both bitstreams against an abstract bit string: from an arbitrary valid state every operation is symbolically executed on the real code and SMT decides, for all values inside the bounds, that it appends/consumes exactly its bits, keeps the counters exact, re-establishes the invariant and refuses operations after Close. Histories of any length follow by induction; array operations are bounded in bits.","DESIGN.md 5/C14", TECH+", inductive one-step refinement"),
 "C16":("other","NormalizeFrequencies executed symbolically on histogram families with symbolic counts (all k<=3/4-symbol histograms and many-rare/few-dominant families, power-of-two totals); SMT decides sum==scale, presence, order on every path.","DESIGN.md 5/C16", TECH+", path-wise over histogram families"),
 "C15":("other","Name tables and every variant-selecting constructor executed with the letter case of each character symbolic (all spellings at once); oracle: same type as canonical spelling, canonical round trip, and encoder-side variant == header-derived variant.","DESIGN.md 5/C15", TECH+", symbolic letter case"),
 "C04":("other","Writer.Write executed symbolically from an arbitrary valid state with real processBlock/encode (NONE/NONE): the emitted block sequence is shown to depend only on the data (not on jobs, size hint, call boundaries), inductively over call sequences. Schedule independence rests on C07.","DESIGN.md 5/C04", TECH+", inductive step over Write calls"),
 "C05":("other","Writer->tape->Reader composition executed symbolically with the real stream code: output == input for every content/size hint within the length bounds and job pairs; damaged block => error and only a correct prefix is ever delivered.","DESIGN.md 5/C05", TECH),
 "C11":("other","Block-range decoding with symbolic from/to over the real Reader/decode: output is exactly the requested slice, incl. empty ranges and all-skipped batches.","DESIGN.md 5/C11", TECH),
 "C17":("other","Writer/Reader lifecycle against a reference state machine over all call sequences of length 3 (symbolic contents), plus bitstream Close consistency from arbitrary states.","DESIGN.md 5/C17", TECH),
 "C08":("other","Fault position is a solver variable: shared bitstream doubles fail at a symbolic operation index, the sink of the real bitstream fails from an arbitrary state; SMT decides error reporting, no escaping panic, no success without a complete stream; stream-level counterexamples must also fail an API-level scenario on the real bitstream.","DESIGN.md 5/C08", TECH+", symbolic fault index"),
 "C09":("other","Every strict prefix at operation granularity of a valid stream (symbolic cut index) is rejected by the real Reader; cuts inside an operation are covered by the bitstream 'read beyond end panics' obligations.","DESIGN.md 5/C09", TECH+", symbolic cut index"),
 "C06":("other","Short reads of the source (enumerated sizes, symbolic content) on the real input bitstream, arbitrary Write partitions (inductive, C04 harness) and several Read buffer sizes.","DESIGN.md 5/C06", TECH),
 "C02":("other","Checksum pipeline logic: a block whose stored checksum differs from the hash of the decoded data is reported and no wrong byte is ever delivered by any call; hash abstracted, replay with the real hash.","DESIGN.md 5/C02", TECH),
 "C07":("model_checking","Bounded model checking with the schedule and fault placement as solver variables: per-task guarded automata are extracted from the real encode/decode SSA in protocol mode (counter value unknown to the task, shared-stream and counter operations visible), composed for N tasks and unrolled to a checked completeness threshold; z3 decides exclusion, order, deadlock-freedom, cancel-marker and counter obligations. Counterexample schedules are forced natively by timing doubles.","DESIGN.md 4, 5/C07", "protocol automata extracted by symbolic execution of Go SSA + SMT-based BMC over solver-chosen schedules (z3)"),
}
NA_REASON={}
checks=[]
for pid,(cat,text,ref,tech) in sorted(claimed.items()):
    checks.append({"property_id":pid,"quick_cmd":f"./check {pid} quick","thorough_cmd":f"./check {pid} thorough","evidence_file":f"/verif/evidence/{pid}.json",
      "replay_cmd_template":"./check replay {path}","engine":"gosmt","level_claimed":{"category":cat,"text":text,"design_ref":ref},"level_note":NOTE,"technique":tech})
m={"version":1,
 "setup_cmd":"cd /verif/engine && GOFLAGS=-mod=mod GOPROXY=off go build -o /verif/bin/gosmt . && /verif/bin/gosmt selfcheck",
 "hooks":{"guard":"verif","enable":"harnesses are injected by go/packages and `go test -overlay` (build tag verif is passed but no hook file exists in /repo: nothing in /repo is instrumented)","baseline_off_cmd":"cd /repo/v2 && GOFLAGS=-mod=mod go test -json -vet=off -count=1 -timeout 25m ./...","source_commits":[],"add_only":True},
 "engines":[{"name":"gosmt","path":"/verif/engine","serves_properties":sorted(claimed),"kind_free_text":"bounded symbolic executor for Go SSA (golang.org/x/tools/go/ssa v0.29.0) emitting SMT-LIB2 for z3 4.8.12 / z3 5.1.0 / cvc5 1.0, with native replay of models via go test -overlay"}],
 "checks":checks,
 "notes":"fix: commits in /repo: fbf38b7 (C16/F1), 8fe1c5e (C15/F4), 5798e9b (C04,C01/F2), 7897bc6 (C05,C02/F3a), a677e92 (C08/F6), c20a415 (C08,C17/F8), 5305bf6 (C08,C17/F9), 80b2972 (C06/F5); see known_findings.json and DESIGN.md section 6.",
 "not_applicable":[{"property_id":p['id'],"reason":NA_REASON.get(p['id'],"check not built yet in this round (planned with this technique, see DESIGN.md section 5)")} for p in props if p['id'] not in claimed]}
json.dump(m,open('/verif/MANIFEST.json','w'),indent=1)
print("claimed",sorted(claimed))
