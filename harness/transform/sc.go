package transform

func SC_names() {
	names := []string{"TEXT+rolzx", "bwt+rank+zrlt", "Lz", "NONE+none+PACK", "utf+mm+exe+dna+srt+lzp+lzx+mtft", "bogus", "RLT+"}
	for _, n := range names {
		t, err := GetType(n)
		vhOut("type", t)
		if err != nil {
			vhOut("err", 1)
			continue
		}
		s, _ := GetName(t)
		h := uint64(5)
		for i := 0; i < len(s); i++ {
			h = h*131 + uint64(s[i])
		}
		vhOut("name-digest", h)
	}
	ctx := map[string]any{"transform": "NONE", "entropy": "NONE", "blockSize": uint(1 << 16), "size": uint(1000)}
	seq, err := New(&ctx, NONE_TYPE)
	if err == nil {
		vhOut("maxlen", uint64(seq.MaxEncodedLen(int(vhU16("n")))))
		src := vhBytes("src", 40)
		dst := make([]byte, 64)
		a, b, _ := seq.Forward(src, dst)
		vhOut("fwd", uint64(a)*1000+uint64(b))
		vhOut("dst7", uint64(dst[7]))
		vhOut("skip", uint64(seq.SkipFlags()))
	}
}
