package transform

// C15: transform names are case-insensitive, canonical, and consistent with the variant actually constructed.

var vhTransformNames = []string{"NONE", "BWT", "BWTS", "LZ", "RLT", "ZRLT", "MTFT", "RANK", "EXE", "TEXT", "ROLZ", "ROLZX", "SRT", "LZP", "MM", "LZX", "UTF", "PACK", "DNA"}

// H15_t_case: every spelling (all 2^len letter-case combinations at once) of every transform name maps to the
// same type as the canonical spelling, and the type maps back to the canonical name.
func H15_t_case() {
	i := vhCase("name", 0, len(vhTransformNames)-1)
	canon := vhTransformNames[i]
	s := vhStrCase("s", canon)
	t, err := GetType(s)
	tc, errc := GetType(canon)
	vhAssert(errc == nil, "canonical-accepted")
	vhAssert(err == nil, "any-case-accepted")
	vhAssert(t == tc, "same-type-as-canonical")
	n, err2 := GetName(t)
	vhAssert(err2 == nil, "type-has-name")
	vhAssert(n == canon, "name-roundtrip-canonical")
	vhReach("checked")
}

var vhTokNames = []string{"tok0", "tok1", "tok2", "tok3", "tok4", "tok5", "tok6", "tok7"}

// H15_t_chain: chains of up to 8 names joined by '+', NONE fillers allowed anywhere.
func H15_t_chain() {
	n := vhParam("len", 3)
	s := ""
	canonChain := ""
	expect := ""
	for k := 0; k < n; k++ {
		i := vhCase(vhTokNames[k], 0, len(vhTransformNames)-1)
		canon := vhTransformNames[i]
		if k > 0 {
			s += "+"
			canonChain += "+"
		}
		s += vhStrCase("s", canon)
		canonChain += canon
		if canon != "NONE" {
			if expect != "" {
				expect += "+"
			}
			expect += canon
		}
	}
	if expect == "" {
		expect = "NONE"
	}
	t, err := GetType(s)
	tc, errc := GetType(canonChain)
	vhAssert(errc == nil, "canonical-accepted")
	vhAssert(err == nil, "any-case-accepted")
	vhAssert(t == tc, "same-type-as-canonical")
	nm, err2 := GetName(t)
	vhAssert(err2 == nil, "type-has-name")
	vhAssert(nm == expect, "name-is-canonical-chain-without-NONE")
	vhReach("checked")
}

// H15_t_unknown: near-miss names are rejected in every letter case.
func H15_t_unknown() {
	bad := []string{"ROLZY", "BW", "TEXTS", "LZZ", "NON", "X", "BWT+", "+BWT", "BWT++LZ", "LZ+UNKNOWN"}
	i := vhCase("bad", 0, len(bad)-1)
	s := vhStrCase("s", bad[i])
	_, err := GetType(s)
	vhAssert(err != nil, "unknown-name-rejected")
	vhReach("checked")
}

// H15_rolz: the ROLZ variant built from the raw spelling (what the encoder sees) equals the variant built from
// the canonical name the decoder derives from the header type.
func H15_rolz() {
	chains := []string{"ROLZ", "ROLZX", "TEXT+ROLZX", "ROLZX+NONE", "BWT+ROLZ"}
	i := vhCase("chain", 0, len(chains)-1)
	s := vhStrCase("s", chains[i])
	t, err := GetType(s)
	vhAssume(err == nil)
	header, err2 := GetName(t)
	vhAssume(err2 == nil)
	encCtx := map[string]any{"transform": s}
	decCtx := map[string]any{"transform": header}
	enc, e1 := NewROLZCodecWithCtx(&encCtx)
	dec, e2 := NewROLZCodecWithCtx(&decCtx)
	vhAssert(e1 == nil && e2 == nil, "constructed")
	_, encX := enc.delegate.(*rolzCodec2)
	_, decX := dec.delegate.(*rolzCodec2)
	vhAssert(encX == decX, "encoder-variant-equals-header-variant")
	vhReach("checked")
}

// H15_text: the text codec flavour selected from the raw entropy spelling equals the one selected from the
// canonical entropy name the decoder reads from the header.
func H15_text() {
	ents := []string{"NONE", "HUFFMAN", "ANS0", "ANS1", "RANGE", "FPAQ", "CM", "TPAQ", "TPAQX"}
	i := vhCase("entropy", 0, len(ents)-1)
	raw := vhStrCase("e", ents[i])
	encCtx := map[string]any{"entropy": raw, "blockSize": uint(1 << 20), "size": uint(1 << 20)}
	decCtx := map[string]any{"entropy": ents[i], "blockSize": uint(1 << 20), "size": uint(1 << 20)}
	te, e1 := newToken(&encCtx, DICT_TYPE)
	td, e2 := newToken(&decCtx, DICT_TYPE)
	vhAssert(e1 == nil && e2 == nil, "constructed")
	vhAssert(encCtx["textcodec"].(int) == decCtx["textcodec"].(int), "text-flavour-equal")
	vhAssert(vhTextLogHash(te.(*TextCodec)) == vhTextLogHash(td.(*TextCodec)), "text-hash-size-equal")
	vhReach("checked")
}

func vhTextLogHash(t *TextCodec) uint {
	switch d := t.delegate.(type) {
	case *textCodec1:
		return d.logHashSize
	case *textCodec2:
		return d.logHashSize + 100
	}
	return 0
}
