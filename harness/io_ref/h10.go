package io

import (
	stdio "io"

	"github.com/flanglet/kanzi-go/v2/entropy"
	"github.com/flanglet/kanzi-go/v2/hash"
	"github.com/flanglet/kanzi-go/v2/transform"
	refentropy "github.com/flanglet/kanzi-go/v2/zzref/entropy"
	refhash "github.com/flanglet/kanzi-go/v2/zzref/hash"
	refio "github.com/flanglet/kanzi-go/v2/zzref/io"
	reftransform "github.com/flanglet/kanzi-go/v2/zzref/transform"
)

// C10: the CURRENT decoder against the frozen REFERENCE encoder (sources of the pinned commit, loaded into the
// same program as .../v2/zzref/...).

// H10_cross_roundtrip: reference Writer -> tape -> current Reader, NONE/NONE, checksum 0/32/64 by case,
// symbolic contents and size hint, enumerated lengths.
func H10_cross_roundtrip() {
	JW := vhParam("jobsW", 1)
	JR := vhParam("jobsR", 2)
	M := vhParam("maxBlocks", 2)
	nb := vhCase("fullBlocks", 0, M-1)
	rem := vhRemainders[vhCase("remainder", 0, len(vhRemainders)-1)]
	N := nb*vhB + rem
	data := vhArb("data", N)
	hint := vhI64("sizeHint")
	// the property quantifies over inputs on which the REFERENCE round-trips: the reference writer loses data when
	// the hint is smaller than the data and jobs > 1 (defect F2 of the pinned commit), so the hint is absent or not smaller
	vhAssume(vhOr(hint == 0, hint >= int64(N)))
	ck := uint(32 * vhCase("checksum", 0, vhParam("maxChecksum", 0)))
	obs := &vhObs{failAt: -1}
	wctx := map[string]any{"transform": "NONE", "entropy": "NONE", "blockSize": uint(vhB), "jobs": uint(JW),
		"checksum": ck, "fileSize": hint}
	w, err := refio.NewWriterWithCtx2(obs, wctx)
	vhAssert(err == nil, "reference-writer-constructed")
	n, err := w.Write(data)
	vhAssert(err == nil && n == N, "reference-write-ok")
	vhAssert(w.Close() == nil, "reference-close-ok")
	ibs := &vhIbs{tape: obs.evts, failAt: -1}
	r, err := NewReaderWithCtx2(ibs, map[string]any{"jobs": uint(JR)})
	vhAssert(err == nil, "reader-constructed")
	out := make([]byte, M*vhB+vhB)
	total, eof, rerr := vhReadAll(r, out, vhB, M+3)
	vhAssert(rerr == nil, "current-reader-accepts-reference-stream")
	vhAssert(eof, "reaches-eof")
	vhAssert(total == N, "length-equal")
	j := vhInt("probe")
	if N > 0 {
		vhAssume(vhAnd(j >= 0, j < N))
		vhAssert(out[j] == data[j], "current-decoder-restores-reference-stream")
		vhReach("probe-checked")
	}
	_ = stdio.EOF
}

// H10_hash: current and reference block hashes agree on every input of length 0..40 (and every seed).
func H10_hash() {
	n := vhCase("len", 0, 40)
	data := vhBytes("d", n)
	seed32 := vhU32("seed32")
	seed64 := vhU64("seed64")
	c32, _ := hash.NewXXHash32(seed32)
	r32, _ := refhash.NewXXHash32(seed32)
	vhAssert(c32.Hash(data) == r32.Hash(data), "xxhash32-equal-to-reference")
	c64, _ := hash.NewXXHash64(seed64)
	r64, _ := refhash.NewXXHash64(seed64)
	vhAssert(c64.Hash(data) == r64.Hash(data), "xxhash64-equal-to-reference")
	vhReach("checked")
}

// H10_names: numeric type <-> name tables equal to the reference for every 6-bit transform token and 5-bit entropy type.
func H10_names() {
	for t := uint64(0); t < 64; t++ {
		cn, ce := transform.GetName(t << 42)
		rn, re := reftransform.GetName(t << 42)
		vhAssert((ce == nil) == (re == nil) && cn == rn, "transform-name-table-equal")
		if re == nil {
			ct, e1 := transform.GetType(rn)
			rt, e2 := reftransform.GetType(rn)
			vhAssert(e1 == nil && e2 == nil && ct == rt, "transform-type-table-equal")
		}
	}
	for t := uint32(0); t < 32; t++ {
		cn, ce := entropy.GetName(t)
		rn, re := refentropy.GetName(t)
		vhAssert((ce == nil) == (re == nil) && cn == rn, "entropy-name-table-equal")
		if re == nil {
			ct, e1 := entropy.GetType(rn)
			rt, e2 := refentropy.GetType(rn)
			vhAssert(e1 == nil && e2 == nil && ct == rt, "entropy-type-table-equal")
		}
	}
	vhReach("checked")
}
