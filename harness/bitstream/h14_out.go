package bitstream

import "errors"

// ---------------------------------------------------------------------------
// Environment double: an append-only sink with arbitrary prior content.

var errVhSink = errors.New("vh: sink failure")

type vhSink struct {
	buf    []byte // backing store (arbitrary content), room beyond n
	n      int    // bytes accepted so far
	failAt int    // index of the Write call that fails (-1: never)
	calls  int
}

func (s *vhSink) Write(p []byte) (int, error) {
	k := s.calls
	s.calls++
	if k == s.failAt {
		return 0, errVhSink
	}
	copy(s.buf[s.n:], p)
	s.n += len(p)
	return len(p), nil
}

func (s *vhSink) Close() error { return nil }

// vhOutState builds an arbitrary open writer state satisfying representation invariant A.1 of DESIGN.md.
func vhOutState(L int, room int) (*DefaultOutputBitStream, *vhSink) {
	pos := vhInt("position")
	vhAssume(vhAnd(pos >= 0, vhAnd(pos <= L-8, pos&7 == 0)))
	avail := uint(vhCase("availBits", vhParam("availLo", 1), vhParam("availHi", 64)))
	cur := vhU64("current")
	vhAssume(cur&((uint64(1)<<avail)-1) == 0)
	n0 := vhInt("sinkLen")
	vhAssume(vhAnd(n0 >= 0, n0 <= 1<<16))
	sink := &vhSink{buf: vhArb("sink", n0+room), n: n0, failAt: -1}
	bs := &DefaultOutputBitStream{}
	bs.buffer = vhArb("buffer", L)
	bs.os = sink
	bs.position = pos
	bs.availBits = avail
	bs.current = cur
	bs.written = int64(n0) << 3
	return bs, sink
}

// vhOutInv is representation invariant A.1 (open stream).
func vhOutInv(bs *DefaultOutputBitStream, sink *vhSink, L int) bool {
	ok := vhAnd(!bs.closed, len(bs.buffer) == L)
	ok = vhAnd(ok, vhAnd(bs.position >= 0, vhAnd(bs.position <= L-8, bs.position&7 == 0)))
	ok = vhAnd(ok, vhAnd(bs.availBits >= 1, bs.availBits <= 64))
	ok = vhAnd(ok, bs.current&((uint64(1)<<bs.availBits)-1) == 0)
	return vhAnd(ok, bs.written == int64(sink.n)<<3)
}

// vhAlphaLen is |alpha|: bits acknowledged so far.
func vhAlphaLen(bs *DefaultOutputBitStream, sink *vhSink) uint64 {
	return uint64(sink.n+bs.position)<<3 + uint64(64-bs.availBits)
}

// vhAlphaBit returns bit p (0 = first written) of alpha = sink ++ buffer[0:position] ++ top bits of current.
func vhAlphaBit(bs *DefaultOutputBitStream, sink *vhSink, p uint64) uint64 {
	bi := int(p >> 3)
	var b byte
	if bi < sink.n {
		b = sink.buf[bi]
	} else if bi-sink.n < bs.position {
		b = bs.buffer[bi-sink.n]
	} else {
		k := p - uint64(sink.n+bs.position)<<3
		return (bs.current >> (63 - k)) & 1
	}
	return uint64(b>>(7-(p&7))) & 1
}

// H14_out_WriteBits: one WriteBits from an arbitrary valid state refines "append count bits of value".
func H14_out_WriteBits() {
	L := vhParam("L", 1024)
	bs, sink := vhOutState(L, L)
	v := vhU64("value")
	cnt := vhUint("count")
	p := vhU64("probe")
	a0 := vhAlphaLen(bs, sink)
	vhAssert(bs.Written() == a0, "written-equals-alpha-pre")
	vhAssume(p < a0+64)
	var pre uint64
	if p < a0 {
		pre = vhAlphaBit(bs, sink, p)
	}
	n0 := sink.n
	var ret uint
	panicked := vhCatch(func() { ret = bs.WriteBits(v, cnt) })
	if cnt > 64 {
		vhReach("count>64")
		vhAssert(panicked, "count>64-must-panic")
		vhAssert(sink.n == n0, "count>64-sink-untouched")
		return
	}
	vhAssert(!panicked, "no-panic")
	vhAssert(ret == cnt, "returns-count")
	vhAssert(vhOutInv(bs, sink, L), "invariant-post")
	vhAssert(bs.Written() == a0+uint64(cnt), "written-advances-by-count")
	vhAssert(vhAlphaLen(bs, sink) == a0+uint64(cnt), "alpha-len")
	vhAssert(sink.n >= n0, "sink-append-only")
	if sink.n > n0 {
		vhReach("flushed")
	}
	if p < a0 {
		vhAssert(vhAlphaBit(bs, sink, p) == pre, "old-bits-preserved")
	} else if p < a0+uint64(cnt) {
		k := p - a0
		vhAssert(vhAlphaBit(bs, sink, p) == (v>>(uint64(cnt)-1-k))&1, "new-bits-are-value")
		vhReach("new-bit-checked")
	}
}

// H14_out_WriteBit: one WriteBit from an arbitrary valid state appends exactly the low bit of its argument.
func H14_out_WriteBit() {
	L := vhParam("L", 1024)
	bs, sink := vhOutState(L, L)
	v := vhInt("bit")
	p := vhU64("probe")
	a0 := vhAlphaLen(bs, sink)
	vhAssume(p <= a0)
	var pre uint64
	if p < a0 {
		pre = vhAlphaBit(bs, sink, p)
	}
	n0 := sink.n
	panicked := vhCatch(func() { bs.WriteBit(v) })
	vhAssert(!panicked, "no-panic")
	vhAssert(vhOutInv(bs, sink, L), "invariant-post")
	vhAssert(bs.Written() == a0+1, "written-advances-by-1")
	vhAssert(vhAlphaLen(bs, sink) == a0+1, "alpha-len")
	vhAssert(sink.n >= n0, "sink-append-only")
	if sink.n > n0 {
		vhReach("flushed")
	}
	if p < a0 {
		vhAssert(vhAlphaBit(bs, sink, p) == pre, "old-bits-preserved")
	} else {
		vhAssert(vhAlphaBit(bs, sink, p) == uint64(v&1), "new-bit-is-arg")
		vhReach("new-bit-checked")
	}
}

// H14_out_WriteArray: one WriteArray(bits, count) with count <= K bits from an arbitrary valid state.
// Loop bounds (derived from the code, K = param): 256-bit loop <= K/256, 64-bit loop <= 3 (after the 256 loop
// remaining < 256), byte loops <= 8, aligned flush loop <= K/8/(L-8)+1.
func H14_out_WriteArray() {
	L := vhParam("L", 1024)
	K := vhParam("K", 135)
	bs, sink := vhOutState(L, 3*L)
	nbytes := vhInt("len(bits)")
	vhAssume(vhAnd(nbytes >= 0, nbytes <= (K+7)/8+1))
	bits := vhArb("bits", nbytes)
	cnt := vhUint("count")
	vhAssume(vhAnd(cnt <= uint(K), cnt >= uint(vhParam("minCount", 0))))
	p := vhU64("probe")
	a0 := vhAlphaLen(bs, sink)
	vhAssume(p < a0+uint64(K))
	var pre uint64
	if p < a0 {
		pre = vhAlphaBit(bs, sink, p)
	}
	n0 := sink.n
	var ret uint
	panicked := vhCatch(func() { ret = bs.WriteArray(bits, cnt) })
	if cnt > uint(nbytes)<<3 {
		vhReach("count>len")
		vhAssert(panicked, "count>len-must-panic")
		vhAssert(vhAnd(sink.n == n0, vhAlphaLen(bs, sink) == a0), "count>len-state-untouched")
		return
	}
	vhAssert(!panicked, "no-panic")
	vhAssert(ret == cnt, "returns-count")
	vhAssert(vhOutInv(bs, sink, L), "invariant-post")
	vhAssert(bs.Written() == a0+uint64(cnt), "written-advances-by-count")
	vhAssert(vhAlphaLen(bs, sink) == a0+uint64(cnt), "alpha-len")
	vhAssert(sink.n >= n0, "sink-append-only")
	if sink.n > n0 {
		vhReach("flushed")
	}
	if p < a0 {
		vhAssert(vhAlphaBit(bs, sink, p) == pre, "old-bits-preserved")
	} else if p < a0+uint64(cnt) {
		k := p - a0
		want := uint64(bits[k>>3]>>(7-(k&7))) & 1
		vhAssert(vhAlphaBit(bs, sink, p) == want, "new-bits-are-array-bits")
		vhReach("new-bit-checked")
	}
}

// H14_out_Close: Close from an arbitrary valid state pads with zero bits to a byte boundary, flushes everything,
// keeps Written() (padding excluded), and afterwards every operation is refused without touching the sink.
func H14_out_Close() {
	L := vhParam("L", 1024)
	bs, sink := vhOutState(L, 2*L)
	p := vhU64("probe")
	a0 := vhAlphaLen(bs, sink)
	total := (a0 + 7) &^ 7
	vhAssume(p < total)
	var pre uint64
	if p < a0 {
		pre = vhAlphaBit(bs, sink, p)
	}
	err := bs.Close()
	vhAssert(err == nil, "close-ok-on-healthy-sink")
	vhAssert(bs.Closed(), "closed-flag")
	vhAssert(uint64(sink.n)<<3 == total, "sink-holds-all-bytes")
	vhAssert(bs.Written() == a0, "written-excludes-padding")
	vhAssert((bs.Written()+7)>>3 == uint64(sink.n), "written-bytes-equal-sink-bytes")
	got := uint64(sink.buf[p>>3]>>(7-(p&7))) & 1
	if p < a0 {
		vhAssert(got == pre, "image-is-alpha")
	} else {
		vhAssert(got == 0, "padding-is-zero")
		vhReach("padding-checked")
	}
	// closed streams refuse further operations
	n1 := sink.n
	op := vhCase("opAfterClose", 0, 3)
	var panicked bool
	switch op {
	case 0:
		panicked = vhCatch(func() { bs.WriteBit(vhInt("bit")) })
	case 1:
		panicked = vhCatch(func() { bs.WriteBits(vhU64("v"), vhUint("c")) })
	case 2:
		panicked = vhCatch(func() { bs.WriteArray(vhArb("arr", 4), vhUint("c2")) })
	case 3:
		vhAssert(bs.Close() == nil, "second-close-is-nil")
		panicked = true
	}
	vhAssert(panicked, "closed-stream-refuses")
	vhAssert(sink.n == n1, "closed-stream-sink-untouched")
	// (observation, not asserted: a refused WriteBit/WriteBits on a closed stream still moves Written() by the
	// 64-bit word it tried to push; the property only requires the refusal)
	vhReach("after-close-checked")
}
