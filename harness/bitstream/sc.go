package bitstream

// Translator self-check (concrete differential run: executor vs native).
func SC_bitstream() {
	sink := &vhSink{buf: make([]byte, 8192), failAt: -1}
	bs, _ := NewDefaultOutputBitStream(sink, 1024)
	for i := 0; i < 60; i++ {
		c := uint(vhU8("c")%64) + 1
		bs.WriteBits(vhU64("v"), c)
	}
	arr := vhBytes("arr", 1400)
	k := uint(vhU32("k") % 11000)
	bs.WriteArray(arr, k)
	bs.WriteBit(int(vhU8("b")))
	bs.WriteArray(arr[7:], uint(vhU32("k2")%3000))
	vhOut("written-before-close", bs.Written())
	bs.Close()
	vhOut("written", bs.Written())
	vhOut("sink-bytes", uint64(sink.n))
	h := uint64(7)
	for i := 0; i < sink.n; i++ {
		h = h*1099511628211 + uint64(sink.buf[i])
	}
	vhOut("image-digest", h)
	src := &vhSource{data: sink.buf[:sink.n], failAt: -1}
	ibs, _ := NewDefaultInputBitStream(src, 1024)
	vhOut("r1", ibs.ReadBits(17))
	vhOut("r2", uint64(ibs.ReadBit()))
	out := make([]byte, 900)
	ibs.ReadArray(out, uint(vhU32("k3")%7000))
	g := uint64(3)
	for i := range out {
		g = g*31 + uint64(out[i])
	}
	vhOut("read-digest", g)
	vhOut("r3", ibs.ReadBits(uint(vhU8("c3")%64)+1))
	vhOut("read-counter", ibs.Read())
	more, _ := ibs.HasMoreToRead()
	vhOut("more", uint64(len(out))+uint64(map[bool]int{true: 1, false: 0}[more]))
}
