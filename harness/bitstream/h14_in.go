package bitstream

import (
	"errors"
	"io"
)

// ---------------------------------------------------------------------------
// Environment double: a finite source with arbitrary content.

var errVhSource = errors.New("vh: source failure")

type vhSource struct {
	data    []byte // S[0:E): arbitrary content
	c       int    // cursor
	short   bool   // short-read mode: each call may return any 1..min(len(p), rest) bytes (C06)
	eofData bool   // the call that reaches the end returns (n, io.EOF) instead of (n, nil)
	failAt  int    // index of the Read call that fails with errVhSource (-1: never)
	calls   int
	shortCalls int
}

var vhShortSizes = []int{1, 2, 3, 5, 7, 8, 9, 13, 16}
var vhShortNames = []string{"short0", "short1", "short2", "short3"}

func (s *vhSource) Read(p []byte) (int, error) {
	k := s.calls
	s.calls++
	if k == s.failAt {
		return 0, errVhSource
	}
	rest := len(s.data) - s.c
	if rest == 0 {
		return 0, io.EOF
	}
	n := len(p)
	if n > rest {
		n = rest
	}
	if s.short {
		if s.shortCalls < vhParam("shortCalls", 3) {
			// arbitrary short read (solver-chosen size)
			var m int
			if vhParam("shortEnum", 0) == 1 {
				// sizes enumerated from a boundary-focused list (one vhCase per call)
				m = vhShortSizes[vhCase(vhShortNames[s.shortCalls], 0, len(vhShortSizes)-1)]
				if m > n {
					m = n
				}
			} else {
				m = vhInt("shortRead")
				vhAssume(vhAnd(m >= 1, vhAnd(m <= n, m <= vhParam("shortMax", 1<<30))))
			}
			s.shortCalls++
			n = m
		} else {
			// afterwards: still short, but completing the current 8-byte group (bounds the exploration)
			m := 8 - s.c&7
			if m < n {
				n = m
			}
		}
	}
	copy(p[:n], s.data[s.c:s.c+n])
	s.c += n
	if s.eofData && s.c == len(s.data) {
		return n, io.EOF
	}
	return n, nil
}

func (s *vhSource) Close() error { return nil }

// vhInState builds an arbitrary open reader state satisfying representation invariant A.2 (DESIGN.md).
// mode: 0 = full-read source (C14/C09), 1 = short-read source (C06).
func vhInState(L int, mode int) (*DefaultInputBitStream, *vhSource) {
	avail := uint(vhCase("availBits", vhParam("availLo", 0), vhParam("availHi", 64)))
	cur := vhU64("current")
	maxPos := vhInt("maxPosition")
	pos := vhInt("position")
	vhAssume(vhAnd(maxPos >= -1, maxPos <= L-1))
	vhAssume(vhAnd(pos >= 0, pos <= maxPos+1))
	c := vhInt("srcCursor")
	E := vhInt("srcLen")
	vhAssume(vhAnd(c >= maxPos+1, c <= 1<<16))
	vhAssume(vhAnd(E >= c, E <= c+2*L))
	if mode == 0 {
		// a full-read source fills whole buffers except at the very end; cursors move by multiples of 8
		// except when the tail of the stream is consumed byte-wise
		vhAssume(vhOr((maxPos+1)&7 == 0, c == E))
		vhAssume(vhOr(pos&7 == 0, pos == maxPos+1))
	}
	src := &vhSource{data: vhArb("S", E), c: c, short: mode == 1, eofData: vhBool("eofWithData"), failAt: -1}
	bs := &DefaultInputBitStream{}
	bs.buffer = make([]byte, L)
	copy(bs.buffer[0:maxPos+1], src.data[c-(maxPos+1):c])
	bs.is = src
	bs.position = pos
	bs.maxPosition = maxPos
	bs.availBits = avail
	bs.current = cur
	bs.read = vhI64("readCounter")
	vhAssume(vhAnd(bs.read >= 0, bs.read <= 1<<40))
	if vhBool("pendingEOF") {
		// the source reported EOF together with the last bytes: only possible when it is exhausted
		vhAssume(vhAnd(src.eofData, c == E))
		bs.pendingErr = io.EOF
	}
	return bs, src
}

// vhInInv: representation invariant A.2 (open stream), full-read conjuncts when mode == 0.
func vhInInv(bs *DefaultInputBitStream, src *vhSource, L int, mode int) bool {
	ok := vhAnd(!bs.closed, len(bs.buffer) == L)
	ok = vhAnd(ok, vhAnd(bs.maxPosition >= -1, bs.maxPosition <= L-1))
	ok = vhAnd(ok, vhAnd(bs.position >= 0, bs.position <= bs.maxPosition+1))
	ok = vhAnd(ok, bs.availBits <= 64)
	ok = vhAnd(ok, vhAnd(src.c >= bs.maxPosition+1, src.c <= len(src.data)))
	if mode == 0 {
		ok = vhAnd(ok, vhOr((bs.maxPosition+1)&7 == 0, src.c == len(src.data)))
		ok = vhAnd(ok, vhOr(bs.position&7 == 0, bs.position == bs.maxPosition+1))
	}
	return ok
}

// vhRhoLen is |rho|: number of unread bits (current ++ buffer rest ++ source rest).
func vhRhoLen(bs *DefaultInputBitStream, src *vhSource) uint64 {
	return uint64(bs.availBits) + uint64(bs.maxPosition+1-bs.position)<<3 + uint64(len(src.data)-src.c)<<3
}

// vhRhoBit returns unread bit j (0 = next bit to be delivered). Requires j < |rho|.
func vhRhoBit(bs *DefaultInputBitStream, src *vhSource, j uint64) uint64 {
	if j < uint64(bs.availBits) {
		return (bs.current >> (uint64(bs.availBits) - 1 - j)) & 1
	}
	k := j - uint64(bs.availBits)
	bi := int(k >> 3)
	inBuf := bs.maxPosition + 1 - bs.position
	var b byte
	if bi < inBuf {
		b = bs.buffer[bs.position+bi]
	} else {
		b = src.data[src.c+bi-inBuf]
	}
	return uint64(b>>(7-(k&7))) & 1
}

// H14_in_ReadBits: one ReadBits(count) from an arbitrary valid state returns the next count bits of rho,
// advances Read() by count, leaves rho' = rho[count:], or panics when count is invalid or exceeds |rho|.
func H14_in_ReadBits() {
	L := vhParam("L", 1024)
	mode := vhParam("mode", 0)
	bs, src := vhInState(L, mode)
	cnt := vhUint("count")
	p := vhU64("probe")
	r0 := vhRhoLen(bs, src)
	d0 := bs.Read()
	vhAssume(p < r0)
	pre := vhRhoBit(bs, src, p)
	var ret uint64
	panicked := vhCatch(func() { ret = bs.ReadBits(cnt) })
	if cnt == 0 || cnt > 64 {
		vhReach("bad-count")
		vhAssert(panicked, "bad-count-must-panic")
		vhAssert(vhAnd(vhRhoLen(bs, src) == r0, bs.Read() == d0), "bad-count-state-untouched")
		return
	}
	if uint64(cnt) > r0 {
		vhReach("beyond-end")
		vhAssert(panicked, "read-beyond-end-must-panic")
		return
	}
	vhAssert(!panicked, "no-panic")
	vhAssert(vhInInv(bs, src, L, mode), "invariant-post")
	vhAssert(bs.Read() == d0+uint64(cnt), "read-counter-advances-by-count")
	vhAssert(vhRhoLen(bs, src) == r0-uint64(cnt), "rho-len")
	if cnt < 64 {
		vhAssert(ret>>cnt == 0, "no-high-garbage")
	}
	if p < uint64(cnt) {
		vhAssert((ret>>(uint64(cnt)-1-p))&1 == pre, "returned-bits-are-next-bits")
		vhReach("returned-bit-checked")
	} else {
		vhAssert(vhRhoBit(bs, src, p-uint64(cnt)) == pre, "rest-preserved")
		vhReach("rest-bit-checked")
	}
}

// H14_in_ReadBit: same for ReadBit.
func H14_in_ReadBit() {
	L := vhParam("L", 1024)
	mode := vhParam("mode", 0)
	bs, src := vhInState(L, mode)
	p := vhU64("probe")
	r0 := vhRhoLen(bs, src)
	d0 := bs.Read()
	var pre uint64
	if r0 > 0 {
		vhAssume(p < r0)
		pre = vhRhoBit(bs, src, p)
	}
	var ret int
	panicked := vhCatch(func() { ret = bs.ReadBit() })
	if r0 == 0 {
		vhReach("beyond-end")
		vhAssert(panicked, "read-beyond-end-must-panic")
		return
	}
	vhAssert(!panicked, "no-panic")
	vhAssert(vhInInv(bs, src, L, mode), "invariant-post")
	vhAssert(bs.Read() == d0+1, "read-counter-advances-by-1")
	vhAssert(vhRhoLen(bs, src) == r0-1, "rho-len")
	if p == 0 {
		vhAssert(uint64(ret) == pre, "returned-bit-is-next-bit")
		vhReach("returned-bit-checked")
	} else {
		vhAssert(vhRhoBit(bs, src, p-1) == pre, "rest-preserved")
		vhReach("rest-bit-checked")
	}
}

// H14_in_ReadArray: one ReadArray(bits, count) with count <= K bits from an arbitrary valid state.
// Loop bounds: 256-bit loop <= K/64 (the refill branch consumes 64 bits per iteration), 64-bit loop <= 3,
// byte loops <= 8 (+ K/8 for the aligned drain of `current`), aligned refill loop <= K/8/L+2.
func H14_in_ReadArray() {
	L := vhParam("L", 1024)
	K := vhParam("K", 135)
	mode := vhParam("mode", 0)
	bs, src := vhInState(L, mode)
	// region split of the state space (each region is a separate, cheaper exploration; region 0 = no restriction)
	inBuf := bs.maxPosition + 1 - bs.position
	rest := len(src.data) - src.c
	switch vhParam("region", 0) {
	case 1: // plenty of buffered bytes: no refill can happen
		vhAssume(inBuf >= K/8+16)
	case 2: // buffer (nearly) exhausted, source has at least one more full buffer: refills are full
		vhAssume(vhAnd(inBuf < K/8+16, rest >= L))
	case 3: // near the end of the source
		vhAssume(vhAnd(inBuf < K/8+16, rest < L))
	}
	nbytes := vhInt("len(bits)")
	vhAssume(vhAnd(nbytes >= 0, nbytes <= (K+7)/8+1))
	bits := make([]byte, nbytes)
	cnt := vhUint("count")
	vhAssume(vhAnd(cnt <= uint(K), cnt >= uint(vhParam("minCount", 0))))
	p := vhU64("probe")
	r0 := vhRhoLen(bs, src)
	d0 := bs.Read()
	var pre uint64
	if r0 > 0 {
		vhAssume(p < r0)
		pre = vhRhoBit(bs, src, p)
	}
	var ret uint
	panicked := vhCatch(func() { ret = bs.ReadArray(bits, cnt) })
	if uint64(cnt) > r0 {
		vhReach("beyond-end")
		vhAssert(panicked, "read-beyond-end-must-panic")
		return
	}
	if cnt > uint(nbytes)<<3 {
		// destination too small: the code has no explicit check; an index panic is acceptable, success is not
		vhReach("dst-too-small")
		vhAssert(panicked, "dst-too-small-must-panic")
		return
	}
	vhAssert(!panicked, "no-panic")
	vhAssert(ret == cnt, "returns-count")
	vhAssert(vhInInv(bs, src, L, mode), "invariant-post")
	vhAssert(bs.Read() == d0+uint64(cnt), "read-counter-advances-by-count")
	vhAssert(vhRhoLen(bs, src) == r0-uint64(cnt), "rho-len")
	if r0 == 0 {
		return
	}
	if p < uint64(cnt) {
		got := uint64(bits[p>>3]>>(7-(p&7))) & 1
		vhAssert(got == pre, "delivered-bits-are-next-bits")
		vhReach("delivered-bit-checked")
	} else {
		vhAssert(vhRhoBit(bs, src, p-uint64(cnt)) == pre, "rest-preserved")
		vhReach("rest-bit-checked")
	}
}

// H14_in_HasMore: HasMoreToRead / Read / Close from an arbitrary valid state.
func H14_in_HasMore() {
	L := vhParam("L", 1024)
	mode := vhParam("mode", 0)
	bs, src := vhInState(L, mode)
	r0 := vhRhoLen(bs, src)
	d0 := bs.Read()
	p := vhU64("probe")
	var pre uint64
	if r0 > 0 {
		vhAssume(p < r0)
		pre = vhRhoBit(bs, src, p)
	}
	more, err := bs.HasMoreToRead()
	vhAssert(more == (r0 > 0), "hasmore-iff-bits-remain")
	vhAssert((err == nil) == more, "hasmore-error-iff-exhausted")
	vhAssert(bs.Read() == d0, "hasmore-does-not-consume")
	vhAssert(vhRhoLen(bs, src) == r0, "hasmore-keeps-rho-len")
	if r0 > 0 {
		vhAssert(vhRhoBit(bs, src, p) == pre, "hasmore-keeps-rho")
		vhReach("rho-preserved")
	} else {
		vhReach("exhausted")
	}
	// Close: afterwards reads panic, Close is idempotent
	vhAssert(bs.Close() == nil, "close-nil")
	vhAssert(bs.Close() == nil, "close-twice-nil")
	vhAssert(bs.Read() == d0, "close-keeps-read-counter")
	op := vhCase("opAfterClose", 0, 2)
	var panicked bool
	switch op {
	case 0:
		panicked = vhCatch(func() { bs.ReadBit() })
	case 1:
		panicked = vhCatch(func() { bs.ReadBits(vhUint("c")) })
	case 2:
		panicked = vhCatch(func() { bs.ReadArray(make([]byte, 4), vhUint("c2")) })
	}
	c2 := uint(1)
	if op == 2 {
		// ReadArray(.., 0) returns 0 without touching anything: not a refusal, but not a read either
		panicked = panicked || bs.Read() == d0
	}
	_ = c2
	vhAssert(panicked, "closed-stream-refuses")
}

// ---------------------------------------------------------------------------
// C06 (source side): short reads. Focused states: the buffer is exhausted, the source still holds data but
// delivers it in short pieces (1..shortMax bytes per call, solver-chosen per call).

func vhShortState(L int) (*DefaultInputBitStream, *vhSource) {
	bs, src := vhInState(L, 1)
	vhAssume(bs.position == bs.maxPosition+1)
	vhAssume(len(src.data)-src.c >= 24)
	vhAssume(bs.pendingErr == nil)
	return bs, src
}

// H06_short_ReadBits: ReadBits(count) when the refill is short.
func H06_short_ReadBits() {
	L := vhParam("L", 1024)
	bs, src := vhShortState(L)
	cnt := vhUint("count")
	vhAssume(vhAnd(cnt >= 1, cnt <= 64))
	p := vhU64("probe")
	r0 := vhRhoLen(bs, src)
	d0 := bs.Read()
	vhAssume(p < uint64(cnt))
	pre := vhRhoBit(bs, src, p)
	var ret uint64
	panicked := vhCatch(func() { ret = bs.ReadBits(cnt) })
	vhAssert(!panicked, "short-read-no-panic")
	vhAssert(bs.Read() == d0+uint64(cnt), "read-counter-advances-by-count")
	vhAssert(vhRhoLen(bs, src) == r0-uint64(cnt), "rho-len")
	vhAssert((ret>>(uint64(cnt)-1-p))&1 == pre, "returned-bits-are-next-bits")
	vhReach("checked")
}

// H06_short_ReadArray: ReadArray of 64..K bits when the refill is short (the unaligned word loop is the
// delicate path: it keeps alignment constants across pull()).
func H06_short_ReadArray() {
	L := vhParam("L", 1024)
	K := vhParam("K", 72)
	bs, src := vhShortState(L)
	cnt := vhUint("count")
	vhAssume(vhAnd(cnt >= 64, cnt <= uint(K)))
	bits := make([]byte, (K+7)/8)
	p := vhU64("probe")
	r0 := vhRhoLen(bs, src)
	d0 := bs.Read()
	vhAssume(p < uint64(cnt))
	pre := vhRhoBit(bs, src, p)
	panicked := vhCatch(func() { bs.ReadArray(bits, cnt) })
	vhAssert(!panicked, "short-read-no-panic")
	vhAssert(bs.Read() == d0+uint64(cnt), "read-counter-advances-by-count")
	vhAssert(vhRhoLen(bs, src) == r0-uint64(cnt), "rho-len")
	got := uint64(bits[p>>3]>>(7-(p&7))) & 1
	vhAssert(got == pre, "delivered-bits-are-next-bits")
	vhReach("checked")
}

// H06_fresh: a fresh DefaultInputBitStream (real constructor) over a source that delivers short reads of
// enumerated sizes; ReadBits(prefix) to misalign, then ReadArray(count). Control flow is concrete, the stream
// content is symbolic: the delivered bits must be exactly the source bits [prefix, prefix+count).
func H06_fresh() {
	total := 48
	src := &vhSource{data: vhArb("S", total), short: true, failAt: -1}
	bs, err := NewDefaultInputBitStream(src, 1024)
	vhAssert(err == nil, "constructed")
	a := uint(vhCase("prefixBits", 0, 9))
	cnt := uint(64 + 8*vhCase("extraBytes", 0, 8) + vhCase("extraBits", 0, 7))
	p := vhU64("probe")
	vhAssume(p < uint64(cnt))
	var first uint64
	bits := make([]byte, 32)
	panicked := vhCatch(func() {
		if a > 0 {
			first = bs.ReadBits(a)
		}
		bs.ReadArray(bits, cnt)
	})
	vhAssert(!panicked, "short-reads-no-panic")
	vhAssert(bs.Read() == uint64(a+cnt), "read-counter-exact")
	if a > 0 {
		want := (uint64(src.data[0])<<8 | uint64(src.data[1])) >> (16 - a)
		vhAssert(first == want, "prefix-bits-correct")
	}
	q := uint64(a) + p
	want := uint64(src.data[q>>3]>>(7-(q&7))) & 1
	got := uint64(bits[p>>3]>>(7-(p&7))) & 1
	vhAssert(got == want, "delivered-bits-are-stream-bits")
	vhReach("checked")
}
