package bitstream

// C08 at the bitstream level: a failing sink / source is never swallowed.

// H08_out_flushfail: the next sink write fails. WriteBits that needs a flush must panic with the error and the
// sink must stay untouched; Close must return the error, stay open and keep Written(); a retried Close on a
// healthy sink must then flush everything with an exact byte count.
func H08_out_flushfail() {
	L := vhParam("L", 1024)
	bs, sink := vhOutState(L, 2*L)
	sink.failAt = sink.calls // the next Write call fails (once)
	a0 := vhAlphaLen(bs, sink)
	n0 := sink.n
	p := vhU64("probe")
	vhAssume(p < a0)
	pre := vhAlphaBit(bs, sink, p)
	op := vhCase("op", 0, 1)
	if op == 0 {
		v := vhU64("value")
		cnt := vhUint("count")
		vhAssume(vhAnd(cnt >= 1, cnt <= 64))
		panicked := vhCatch(func() { bs.WriteBits(v, cnt) })
		if sink.calls > 0 && sink.n == n0 && panicked {
			vhReach("flush-failed-panic")
		}
		vhAssert(sink.n == n0 || !panicked, "failed-flush-leaves-sink-untouched")
		if !panicked {
			vhAssert(bs.Written() == a0+uint64(cnt), "no-flush-needed-op-succeeds")
		}
		return
	}
	calls0 := sink.calls
	err := bs.Close()
	if sink.calls == calls0 {
		// nothing was buffered: Close had nothing to hand to the sink, success is the right answer
		vhAssert(err == nil && bs.Closed(), "empty-close-succeeds")
		vhReach("empty-close")
		return
	}
	vhAssert(err != nil, "close-reports-sink-failure")
	vhAssert(!bs.Closed(), "failed-close-stays-open")
	vhAssert(sink.n == n0, "failed-close-leaves-sink-untouched")
	vhAssert(bs.Written() == a0, "failed-close-keeps-written")
	vhAssert(vhAlphaLen(bs, sink) == a0, "failed-close-keeps-alpha-len")
	vhAssert(vhAlphaBit(bs, sink, p) == pre, "failed-close-keeps-alpha")
	// retry on the now healthy sink
	err = bs.Close()
	vhAssert(err == nil, "retried-close-succeeds")
	vhAssert((bs.Written()+7)>>3 == uint64(sink.n), "after-retry-written-bytes-equal-sink-bytes")
	vhAssert(uint64(sink.n)<<3 == (a0+7)&^7, "after-retry-sink-holds-all-bytes")
	got := uint64(sink.buf[p>>3]>>(7-(p&7))) & 1
	vhAssert(got == pre, "after-retry-image-is-alpha")
	vhReach("retry-checked")
}
