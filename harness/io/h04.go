package io

// C04 / C06 (caller side) / C01 (stream composition): Writer.Write from an arbitrary valid state.

const vhB = 1024 // block size used by the stream-layer harnesses (the minimum legal one)

// vhWriterState builds a Writer (real constructor, NONE/NONE codecs, no checksum) in an arbitrary valid state:
// `available` buffered bytes with arbitrary content (invariant A.3 of DESIGN.md), any number of blocks already
// emitted, header already written or not, any size hint.
func vhWriterState(J int, obs *vhObs) (*Writer, int) {
	hint := vhI64("sizeHint")
	vhAssume(hint >= 0)
	ctx := map[string]any{"transform": "NONE", "entropy": "NONE", "blockSize": uint(vhB), "jobs": uint(J),
		"checksum": uint(0), "fileSize": hint}
	w, err := NewWriterWithCtx2(obs, ctx)
	vhAssert(err == nil, "writer-constructed")
	a := vhInt("available")
	vhAssume(vhAnd(a >= 0, a < J*vhB))
	bufSize := len(w.buffers[0].Buf)
	nb := vhSplit(a/vhB) + 1
	for i := 0; i < nb && i < J; i++ {
		w.buffers[i].Buf = vhArb("buffered", bufSize)
	}
	w.available = a
	done := vhI32("blocksDone")
	vhAssume(vhAnd(done >= 0, done < 1<<20))
	w.blockID = done
	if vhCase("headerWritten", 0, 1) == 1 {
		w.initialized = 1
	}
	return w, a
}

func vhBufferedByte(w *Writer, j int) byte {
	return w.buffers[vhSplit(j/vhB)].Buf[j%vhB]
}

// vhBlockPayload returns byte i of the payload of the block carried by a WriteArray event of the shared stream
// (local stream layout for NONE/NONE: mode byte, dataSize length bytes, payload).
func vhBlockPayload(e vhEvt, i int) byte {
	mode := e.data[0]
	dataSize := 1 + int((mode>>5)&3)
	return e.data[1+dataSize+i]
}

// H04_write: one Write(p) from an arbitrary valid state.  Oracle: n == len(p), no error, and the sequence
// (payloads of the blocks handed to the shared stream, in order) ++ (bytes still buffered) equals
// (bytes buffered before) ++ p, for every job count, size hint and call boundary.
func H04_write() {
	J := vhParam("jobs", 2)
	obs := &vhObs{failAt: -1}
	w, a := vhWriterState(J, obs)
	n := vhInt("n")
	vhAssume(vhAnd(n >= 0, n <= (J+1)*vhB))
	// split the length range into classes explored in parallel (exhaustive: the classes cover [0,(J+1)B])
	nc := vhCase("lenClass", 0, 2*(J+1)-1)
	vhAssume(vhAnd(n >= nc*vhB/2, vhOr(n < (nc+1)*vhB/2, vhAnd(nc == 2*(J+1)-1, n <= (J+1)*vhB))))
	p := vhArb("p", n)
	j := vhInt("probe")
	vhAssume(vhAnd(j >= 0, j < a+n))
	var want byte
	if j < a {
		want = vhBufferedByte(w, j)
	} else {
		want = p[j-a]
	}
	hdr := w.initialized == 0 && !w.headless
	ret, err := w.Write(p)
	vhAssert(err == nil, "write-no-error")
	vhAssert(ret == n, "write-returns-len")
	// collect the block payload events in stream order
	var blocks []vhEvt
	k := 0
	if hdr && len(obs.evts) > 0 {
		// header: magic, version, checksum size, entropy, transform, block size, size mask, [size], padding, crc
		vhAssert(obs.evts[0].kind == 1 && obs.evts[0].val == _BITSTREAM_TYPE && obs.evts[0].cnt == 32, "header-first")
		for k < len(obs.evts) && !(obs.evts[k].kind == 1 && obs.evts[k].cnt == 24) {
			k++
		}
		k++
	}
	for k < len(obs.evts) {
		vhAssert(k+2 < len(obs.evts), "block-record-complete")
		e0, e1, e2 := obs.evts[k], obs.evts[k+1], obs.evts[k+2]
		vhAssert(e0.kind == 1 && e0.cnt == 5, "block-record-length-of-length")
		vhAssert(e1.kind == 1 && e1.cnt == uint(e0.val)+3, "block-record-length-width")
		vhAssert(e2.kind == 2 && uint64(e2.cnt) == e1.val, "block-record-payload-size")
		blocks = append(blocks, e2)
		k += 3
	}
	emitted := len(blocks)
	vhAssert(emitted*vhB+w.available == a+n, "no-byte-lost-or-invented")
	vhAssert(w.available < J*vhB, "buffers-not-overfull")
	var got byte
	if j < emitted*vhB {
		got = vhBlockPayload(blocks[j/vhB], j%vhB)
		vhReach("probe-in-emitted-block")
	} else {
		got = vhBufferedByte(w, j-emitted*vhB)
		vhReach("probe-in-buffer")
	}
	vhAssert(got == want, "stream-order-preserved")
	if emitted > 0 {
		vhReach("emitted")
	}
}

// H04_write_api: native-only twin of H04_write. Drives the same scenario (jobs, size hint, `available` bytes
// buffered by a first Write, then a second Write of n bytes) through the public API from a fresh Writer over a
// real bitstream, closes, decodes with a 1-job Reader and compares.
func H04_write_api() {
	J := vhParam("jobs", 2)
	hint := vhI64("sizeHint")
	a := vhInt("available")
	n := vhInt("n")
	data := vhData(a+n, uint32(a*31+n))
	out, err := vhRoundTrip(data, []int{a, n}, "NONE", "NONE", uint(vhB), uint(J), 0, hint, 1)
	vhAssert(err == nil, "api-roundtrip-no-error")
	vhAssert(string(out) == string(data), "api-roundtrip-equal")
}
