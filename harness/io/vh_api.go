package io

import (
	"bytes"
	stdio "io"
)

type vhCloserBuf struct{ bytes.Buffer }

func (b *vhCloserBuf) Close() error { return nil }

type vhCloserReader struct{ *bytes.Reader }

func (b vhCloserReader) Close() error { return nil }

// vhCompress writes data through a fresh Writer, split into the given Write call sizes (rest in one last call).
func vhCompress(data []byte, splits []int, transform, entropy string, bs, jobs, checksum uint, hint int64) ([]byte, error) {
	sink := &vhCloserBuf{}
	w, err := NewWriter(sink, transform, entropy, bs, jobs, checksum, hint, false)
	if err != nil {
		return nil, err
	}
	off := 0
	for _, s := range splits {
		if s > len(data)-off {
			s = len(data) - off
		}
		if _, err := w.Write(data[off : off+s]); err != nil {
			return nil, err
		}
		off += s
	}
	if off < len(data) {
		if _, err := w.Write(data[off:]); err != nil {
			return nil, err
		}
	}
	if err := w.Close(); err != nil {
		return nil, err
	}
	return sink.Bytes(), nil
}

func vhDecompress(comp []byte, jobs uint) ([]byte, error) {
	r, err := NewReader(vhCloserReader{bytes.NewReader(comp)}, jobs)
	if err != nil {
		return nil, err
	}
	var out bytes.Buffer
	buf := make([]byte, 4096)
	for {
		n, err := r.Read(buf)
		out.Write(buf[:n])
		if err == stdio.EOF {
			break
		}
		if err != nil {
			return out.Bytes(), err
		}
		if n == 0 {
			break
		}
	}
	r.Close()
	return out.Bytes(), nil
}

func vhRoundTrip(data []byte, splits []int, transform, entropy string, bs, jobs, checksum uint, hint int64, djobs uint) ([]byte, error) {
	comp, err := vhCompress(data, splits, transform, entropy, bs, jobs, checksum, hint)
	if err != nil {
		return nil, err
	}
	return vhDecompress(comp, djobs)
}
