package io

import (
	"bytes"
	stdio "io"
)

// C01/C05/C11: Writer -> shared-stream tape -> Reader composition with NONE/NONE codecs (real encode/decode,
// real task-local bitstreams, real framing), symbolic block contents and symbolic total length.

// vhWriteTape compresses data (one Write call) with the real Writer into a tape of shared-stream events.
func vhWriteTape(data []byte, jobs int, checksum uint, hint int64) []vhEvt {
	obs := &vhObs{failAt: -1}
	ctx := map[string]any{"transform": "NONE", "entropy": "NONE", "blockSize": uint(vhB), "jobs": uint(jobs),
		"checksum": checksum, "fileSize": hint}
	w, err := NewWriterWithCtx2(obs, ctx)
	vhAssert(err == nil, "writer-constructed")
	n, err := w.Write(data)
	vhAssert(err == nil && n == len(data), "write-ok")
	vhAssert(w.Close() == nil, "close-ok")
	return obs.evts
}

var vhRemainders = []int{0, 1, 15, 16, 17, 255, 256, 1000, 1023}

// H05_roundtrip: N bytes (N symbolic, up to M blocks) -> Writer(jobsW) -> tape -> Reader(jobsR), read with
// buffers of R bytes until EOF.  Oracle: the concatenated output equals the input (probe byte), has length N,
// ends with a clean EOF, every Read returns 0 < n <= len(p) or EOF.
func H05_roundtrip() {
	JW := vhParam("jobsW", 2)
	JR := vhParam("jobsR", 2)
	M := vhParam("maxBlocks", 3)
	R := vhParam("readBuf", vhB)
	// number of full blocks by case, remainder symbolic: exhaustive over [0, M*B]
	// lengths are enumerated (symbolic lengths make every length-dependent loop of the framing code fork):
	// full blocks 0..M-1 plus a remainder from a boundary-focused list; contents, size hint and probe stay symbolic
	nb := vhCase("fullBlocks", 0, M-1)
	rem := vhRemainders[vhCase("remainder", 0, len(vhRemainders)-1)]
	N := nb*vhB + rem
	data := vhArb("data", N)
	hint := vhI64("sizeHint")
	vhAssume(hint >= 0)
	tape := vhWriteTape(data, JW, 0, hint)
	ibs := &vhIbs{tape: tape, failAt: -1}
	ctx := map[string]any{"jobs": uint(JR)}
	r, err := NewReaderWithCtx2(ibs, ctx)
	vhAssert(err == nil, "reader-constructed")
	j := vhInt("probe")
	out := make([]byte, M*vhB+R)
	total := 0
	eof := false
	for calls := 0; calls < (M*vhB)/R+3; calls++ {
		n, err := r.Read(out[total : total+R])
		if err == stdio.EOF {
			vhAssert(n == 0, "eof-with-zero-bytes")
			eof = true
			break
		}
		vhAssert(err == nil, "read-no-error")
		vhAssert(vhAnd(n > 0, n <= R), "read-count-in-range")
		total += n
	}
	vhAssert(eof, "reaches-eof")
	vhAssert(total == N, "output-length-equals-input-length")
	if N > 0 {
		vhAssume(vhAnd(j >= 0, j < N))
		vhAssert(out[j] == data[j], "output-equals-input")
		vhReach("probe-checked")
	} else {
		vhReach("empty-stream-checked")
	}
	n2, err2 := r.Read(out[0:R])
	vhAssert(n2 == 0 && err2 == stdio.EOF, "eof-is-sticky")
}

// vhReadAll reads r with R-byte buffers into out until EOF or error; returns (total, eof, err).
func vhReadAll(r *Reader, out []byte, R int, maxCalls int) (int, bool, error) {
	total := 0
	for calls := 0; calls < maxCalls; calls++ {
		n, err := r.Read(out[total : total+R])
		if err == stdio.EOF {
			vhAssert(n == 0, "eof-with-zero-bytes")
			return total, true, nil
		}
		if err != nil {
			return total + n, false, err
		}
		vhAssert(vhAnd(n > 0, n <= R), "read-count-in-range")
		total += n
	}
	return total, false, nil
}

// H11_range: block-range decoding. from/to arbitrary ints; output must be exactly the bytes of blocks
// from..to-1 (block k covers input bytes [(k-1)B, kB)), for any job counts, incl. empty ranges, ranges beyond the
// last block and batches made only of skipped blocks.
func H11_range() {
	JW := vhParam("jobsW", 1)
	JR := vhParam("jobsR", 2)
	M := vhParam("maxBlocks", 4)
	R := vhParam("readBuf", vhB)
	nb := vhCase("fullBlocks", 0, M-1)
	rem := vhRemainders[vhCase("remainder", 0, len(vhRemainders)-1)]
	N := nb*vhB + rem
	data := vhArb("data", N)
	hint := vhI64("sizeHint")
	vhAssume(hint >= 0)
	tape := vhWriteTape(data, JW, 0, hint)
	from := vhInt("from")
	to := vhInt("to")
	vhAssume(vhAnd(from >= 1, vhAnd(from <= to, to <= 1<<31))) // the property quantifies over 1 <= from <= to
	ibs := &vhIbs{tape: tape, failAt: -1}
	ctx := map[string]any{"jobs": uint(JR), "from": from, "to": to}
	r, err := NewReaderWithCtx2(ibs, ctx)
	vhAssert(err == nil, "reader-constructed")
	// expected slice [lo, hi) of the input
	lo, hi := 0, 0
	if from < to {
		f := from
		if f < 1 {
			f = 1
		}
		if f-1 <= M+1 {
			lo = (f - 1) * vhB
		} else {
			lo = N
		}
		if lo > N {
			lo = N
		}
		if to-1 <= M+1 {
			hi = (to - 1) * vhB
		} else {
			hi = N
		}
		if hi > N {
			hi = N
		}
		if hi < lo {
			hi = lo
		}
	}
	out := make([]byte, M*vhB+R)
	total, eof, rerr := vhReadAll(r, out, R, (M*vhB)/R+3)
	vhAssert(rerr == nil, "read-no-error")
	vhAssert(eof, "reaches-eof")
	vhAssert(total == hi-lo, "output-length-equals-range-length")
	j := vhInt("probe")
	if hi-lo > 0 {
		vhAssume(vhAnd(j >= 0, j < hi-lo))
		vhAssert(out[j] == data[lo+j], "output-equals-requested-slice")
		vhReach("probe-checked")
	} else {
		vhReach("empty-range")
	}
}

// H05_error: a stream whose block k carries a damaged checksum field (checksum 32 bits): the Read call covering
// block k must report the error, and the bytes delivered by ALL calls (before and after the error) must be a
// correct prefix of the input that stops before block k: no byte of the failed block or of any later block.
func H05_error() {
	JW := vhParam("jobsW", 1)
	JR := vhParam("jobsR", 2)
	M := vhParam("maxBlocks", 3)
	R := vhB
	nb := vhCase("blocks", vhParam("blocksLo", 1), M)
	// optional 12-byte last block: blocks of <= 15 bytes are stored in copy mode (own decoding path)
	tail := 12 * vhCase("tailBlock", 0, vhParam("tailMax", 0))
	N := nb*vhB + tail
	nbT := nb
	if tail > 0 {
		nbT++
	}
	data := vhArb("data", N)
	hint := vhI64("sizeHint")
	vhAssume(hint >= 0)
	tape := vhWriteTape(data, JW, 32, hint)
	k := vhCase("badBlock", vhParam("badLo", 1), M+vhParam("tailMax", 0))
	if k > nbT {
		return
	}
	// locate the k-th payload event and flip one bit of its stored checksum (bytes after mode + length bytes)
	seen := 0
	for i := range tape {
		if tape[i].kind == 2 {
			seen++
			if seen == k {
				d := tape[i].data
				dataSize := 1 + int((d[0]>>5)&3)
				d[1+dataSize] ^= 1 << uint(vhCase("bit", 0, 1)*7)
			}
		}
	}
	ibs := &vhIbs{tape: tape, failAt: -1}
	ctx := map[string]any{"jobs": uint(JR)}
	r, err := NewReaderWithCtx2(ibs, ctx)
	vhAssert(err == nil, "reader-constructed")
	out := make([]byte, (M+3)*vhB)
	total := 0
	sawErr := false
	for calls := 0; calls < M+5; calls++ {
		n, err := r.Read(out[total : total+R])
		total += n
		if err != nil && err != stdio.EOF {
			sawErr = true
		}
		// the tasks' scratch (pre-inverse-transform) buffers never hold caller-visible data: poison them, so that a
		// Read that wrongly serves bytes from them is visible even though NONE makes both buffers carry equal bytes
		for k := JR; k < 2*JR; k++ {
			b := r.buffers[k].Buf
			for i := 0; i < len(b) && i < vhB; i += 128 {
				b[i] = 0xAA
			}
		}
		if err == stdio.EOF && n == 0 {
			if !sawErr {
				vhReach("eof-before-error")
			}
		}
	}
	vhAssert(sawErr, "damaged-block-is-reported")
	vhAssert(total <= (k-1)*vhB, "nothing-delivered-from-failed-block-or-beyond")
	j := vhInt("probe")
	if total > 0 {
		vhAssume(vhAnd(j >= 0, j < total))
		vhAssert(out[j] == data[j], "delivered-bytes-are-correct-prefix")
		vhReach("prefix-checked")
	}
	vhReach("checked")
}

// H05_error_api: native-only twin of H05_error through the public API with a REAL transform (LZ), so that the
// tasks' scratch buffers differ from the decoded data. Two scenarios: (a) the shape of the counterexample's case
// (number of full blocks, optional 12-byte copy-mode block, damaged block, reader jobs), (b) a fixed one with the
// damage in a later batch (6 blocks, block 4, reader jobs 2). A payload byte of the chosen block is damaged (located by
// parsing the container). Every byte delivered by any Read call, before or after the error, must equal the original byte
// at that position, nothing from the damaged block on may be delivered, and the damage must be reported.
func H05_error_api() {
	JR := vhParam("jobsR", 2)
	nb := vhCase("blocks", 1, 8)
	tail := 12 * vhCase("tailBlock", 0, 1)
	bad := vhCase("badBlock", 1, 9)
	if nb >= 1 && bad >= 1 && bad <= nb+tail/12 {
		vhErrorScenario(nb, tail, bad, JR)
	}
	vhErrorScenario(6, 0, 4, 2)
}

func vhErrorScenario(nb, tail, bad, jobs int) {
	nblocks := nb
	if tail > 0 {
		nblocks++
	}
	data := make([]byte, nb*vhB+tail)
	for i := range data {
		data[i] = byte('a' + (i/7)%13 + (i/vhB)*3%5)
	}
	comp, err := vhCompress(data, nil, "LZ", "NONE", uint(vhB), 1, 32, 0)
	vhAssert(err == nil, "api-compress")
	// locate block records: header = 160 bits (no size hint), then per block: 5 bits (lw-3), lw bits (length in bits), payload
	pos := uint64(160)
	getBits := func(p uint64, n uint) uint64 {
		v := uint64(0)
		for i := uint(0); i < n; i++ {
			bit := (comp[(p+uint64(i))>>3] >> (7 - ((p + uint64(i)) & 7))) & 1
			v = v<<1 | uint64(bit)
		}
		return v
	}
	target := uint64(0)
	for b := 1; b <= nblocks; b++ {
		lw := uint(getBits(pos, 5)) + 3
		ln := getBits(pos+5, lw)
		pos += 5 + uint64(lw)
		if b == bad {
			// middle of the block record: inside the entropy-coded payload (mode, length and checksum come first)
			target = pos + ln/2
		}
		pos += ln
	}
	comp[target>>3] ^= 0x10
	r, err := NewReader(vhCloserReader{bytes.NewReader(comp)}, uint(jobs))
	vhAssert(err == nil, "api-reader")
	out := make([]byte, 0, len(data))
	buf := make([]byte, 700)
	sawErr := false
	for calls := 0; calls < 40; calls++ {
		n, e := r.Read(buf)
		out = append(out, buf[:n]...)
		if e != nil && e != stdio.EOF {
			sawErr = true
		}
	}
	vhAssert(sawErr, "damaged-block-is-reported")
	vhAssert(len(out) <= (bad-1)*vhB, "nothing-delivered-from-failed-block-or-beyond")
	for i := range out {
		vhAssert(out[i] == data[i], "nothing-delivered-from-failed-block-or-beyond")
	}
}
