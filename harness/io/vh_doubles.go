package io

import (
	"errors"
	"time"
)

// ---------------------------------------------------------------------------
// Doubles for the SHARED bitstreams (contract K-bs of DESIGN.md section 3, discharged by C14):
// an output bitstream that records the operations it receives, and an input bitstream that serves a
// scripted sequence of block records.  Task-local bitstreams inside encode/decode stay the real ones.

var errVhStream = errors.New("vh: shared stream failure")

type vhEvt struct {
	kind int // 0 = WriteBit, 1 = WriteBits, 2 = WriteArray
	val  uint64
	cnt  uint
	data []byte // snapshot of the bytes passed to WriteArray
}

type vhObs struct {
	evts   []vhEvt
	bits   uint64
	closed bool
	failAt int // index of the operation that panics with errVhStream (-1: never)
	ops    int
	trace  bool // protocol mode: every operation is a visible event
	slowAt int  // native schedule forcing: the operation with this index (1-based) sleeps
}

func (o *vhObs) step() {
	k := o.ops
	o.ops++
	if o.slowAt > 0 && k+1 == o.slowAt {
		time.Sleep(300 * time.Millisecond)
	}
	if o.trace {
		vhEvent("io", k, 0)
	}
	if o.closed {
		panic(errors.New("Stream closed"))
	}
	if k == o.failAt {
		panic(errVhStream)
	}
}

func (o *vhObs) WriteBit(bit int) {
	o.step()
	o.evts = append(o.evts, vhEvt{kind: 0, val: uint64(bit & 1), cnt: 1})
	o.bits++
}

func (o *vhObs) WriteBits(v uint64, c uint) uint {
	o.step()
	if c == 0 || c > 64 {
		panic(errors.New("Invalid bit count"))
	}
	o.evts = append(o.evts, vhEvt{kind: 1, val: v, cnt: c})
	o.bits += uint64(c)
	return c
}

func (o *vhObs) WriteArray(bits []byte, c uint) uint {
	o.step()
	if c > uint(len(bits))<<3 {
		panic(errors.New("Invalid length"))
	}
	n := int((c + 7) >> 3)
	d := make([]byte, n)
	copy(d, bits[:n])
	o.evts = append(o.evts, vhEvt{kind: 2, cnt: c, data: d})
	o.bits += uint64(c)
	return c
}

func (o *vhObs) Close() error {
	if o.closed {
		return nil
	}
	k := o.ops
	o.ops++
	if k == o.failAt {
		return errVhStream
	}
	o.closed = true
	return nil
}

func (o *vhObs) Written() uint64 { return o.bits }

// vhIbs replays a tape of write events as the shared input bitstream: every read must consume exactly one
// write event of the same kind and size (the stream layer reads with the granularity it wrote with);
// a read past the end of the tape panics like a real bitstream at end of data.
type vhIbs struct {
	tape   []vhEvt
	pos    int
	bits   uint64
	closed bool
	failAt int
	ops    int
	trace  bool
	slowAt int // native schedule forcing: the operation with this index (1-based position on the tape) sleeps
}

func (s *vhIbs) next(kind int, c uint) vhEvt {
	k := s.ops
	s.ops++
	if s.slowAt > 0 && s.pos == s.slowAt {
		time.Sleep(300 * time.Millisecond)
	}
	if s.trace {
		vhEvent("io", k, 0)
	}
	if s.closed {
		panic(errors.New("Stream closed"))
	}
	if k == s.failAt {
		panic(errVhStream)
	}
	if s.pos >= len(s.tape) {
		panic(errors.New("No more data to read in the bitstream"))
	}
	e := s.tape[s.pos]
	if e.kind != kind || e.cnt != c {
		panic(errors.New("vh: tape granularity mismatch"))
	}
	s.pos++
	s.bits += uint64(c)
	return e
}

func (s *vhIbs) ReadBit() int { return int(s.next(0, 1).val & 1) }

func (s *vhIbs) ReadBits(c uint) uint64 {
	if c == 0 || c > 64 {
		panic(errors.New("Invalid bit count"))
	}
	e := s.next(1, c)
	if c == 64 {
		return e.val
	}
	return e.val & ((uint64(1) << c) - 1)
}

func (s *vhIbs) ReadArray(bits []byte, c uint) uint {
	if c == 0 {
		return 0
	}
	e := s.next(2, c)
	n := int((c + 7) >> 3)
	copy(bits[:n], e.data[:n])
	return c
}

func (s *vhIbs) HasMoreToRead() (bool, error) {
	if s.closed {
		return false, errors.New("Stream closed")
	}
	return s.pos < len(s.tape), nil
}

func (s *vhIbs) Read() uint64 { return s.bits }

func (s *vhIbs) Close() error {
	s.closed = true
	return nil
}
