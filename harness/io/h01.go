package io

import (
	"github.com/flanglet/kanzi-go/v2/hash"
)

// C01 building blocks: constructor validation and header round trip.

// H01_ctor: a configuration is either rejected by the constructor or satisfies the preconditions the rest of
// the stream code relies on (block size multiple of 16 in [1024, 2^30], jobs 1..64, checksum 0/32/64).
func H01_ctor() {
	bs := vhUint("blockSize")
	jobs := vhUint("jobs")
	ck := vhUint("checksum")
	hint := vhI64("sizeHint")
	obs := &vhObs{failAt: -1}
	ctx := map[string]any{"transform": "NONE", "entropy": "NONE", "blockSize": bs, "jobs": jobs, "checksum": ck, "fileSize": hint}
	w, err := NewWriterWithCtx2(obs, ctx)
	if err != nil {
		vhAssert(w == nil, "rejected-means-no-writer")
		vhReach("rejected")
		return
	}
	vhAssert(vhAnd(bs >= 1024, vhAnd(bs <= 1<<30, bs&15 == 0)), "accepted-block-size-legal")
	vhAssert(vhAnd(jobs >= 1, jobs <= 64), "accepted-jobs-legal")
	vhAssert(vhOr(ck == 0, vhOr(ck == 32, ck == 64)), "accepted-checksum-legal")
	vhAssert(w.blockSize == int(bs) && w.jobs == int(jobs), "fields-copied")
	vhAssert((w.hasher32 != nil) == (ck == 32) && (w.hasher64 != nil) == (ck == 64), "hasher-matches-checksum")
	vhAssert(w.nbInputBlocks <= 63, "block-count-hint-capped") // (a negative value only arises from hints near MaxInt64 and reads as "unknown")
	vhAssert(len(w.buffers) == 2*int(jobs) && len(w.buffers[0].Buf) >= int(bs), "buffers-allocated")
	vhReach("accepted")
}

// H01_header: writeHeader followed by readHeader on the produced fields returns every parameter
// (block size, checksum width, entropy/transform types, size hint in its 0/16/32/48-bit forms) and the
// 24-bit header checksum accepts.
func H01_header() {
	bs := vhInt("blockSize")
	vhAssume(vhAnd(bs >= 1024, vhAnd(bs <= 1<<30, bs&15 == 0)))
	hint := vhI64("sizeHint")
	vhAssume(hint >= 0) // documented: 0 when the size is not available
	ck := vhCase("checksum", 0, 2)
	et := uint32([]int{0, 1, 2, 4, 5, 6, 7, 8, 9}[vhCase("entropyType", 0, 8)]) // type 3 is not assigned
	tts := []uint64{0, uint64(1) << 42, uint64(10)<<42 | uint64(12)<<36, uint64(19)<<42 | uint64(18)<<36 | uint64(17)<<30 | uint64(16)<<24 | uint64(15)<<18 | uint64(14)<<12 | uint64(13)<<6 | 11}
	tt := tts[vhCase("transform", 0, len(tts)-1)]
	obs := &vhObs{failAt: -1}
	w := &Writer{obs: obs, blockSize: bs, entropyType: et, transformType: tt, inputSize: hint}
	if ck == 1 {
		w.hasher32, _ = hash.NewXXHash32(_BITSTREAM_TYPE)
	} else if ck == 2 {
		w.hasher64, _ = hash.NewXXHash64(_BITSTREAM_TYPE)
	}
	vhAssert(w.writeHeader() == nil, "header-written")
	ibs := &vhIbs{tape: obs.evts, failAt: -1}
	ctx := map[string]any{"jobs": uint(1)}
	r, err := NewReaderWithCtx2(ibs, ctx)
	vhAssert(err == nil, "reader-constructed")
	herr := r.readHeader()
	vhAssert(herr == nil, "header-accepted")
	vhAssert(r.blockSize == bs, "block-size-roundtrip")
	vhAssert(r.entropyType == et && r.transformType == tt, "types-roundtrip")
	vhAssert((r.hasher32 != nil) == (ck == 1) && (r.hasher64 != nil) == (ck == 2), "checksum-width-roundtrip")
	if vhAnd(hint > 0, hint < 1<<48) {
		vhAssert(r.outputSize == hint, "size-hint-roundtrip")
		vhReach("hint-present")
	} else {
		vhAssert(r.outputSize == 0, "size-hint-absent")
		vhReach("hint-absent")
	}
	vhAssert(ibs.pos == len(ibs.tape), "header-consumed-exactly")
	vhReach("checked")
}
