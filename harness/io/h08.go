package io

import stdio "io"

// C08 / C09: failures of the shared streams at a solver-chosen operation, and truncated streams.

const vhHeaderOps = 9 // WriteBits calls of writeHeader when no size hint is given

// H08_writer_fault_api: native-only twin. Known way to make the real 256 KiB bitstream flush exactly while the
// end marker is written: NONE/NONE, 1 MiB blocks, 262108 input bytes (262136 bytes buffered), over a sink that
// rejects every write; plus a sweep of nearby lengths. Any escaping panic or unreported failure confirms.
func H08_writer_fault_api() {
	for _, n := range []int{262108, 262107, 262109, 100, 262144 * 2} {
		sink := &vhDeadSink{}
		w, err := NewWriter(sink, "NONE", "NONE", 1<<20, 1, 0, 0, false)
		vhAssert(err == nil, "api-writer-constructed")
		data := vhData(n, uint32(n))
		var werr, cerr error
		p1 := vhCatch(func() { _, werr = w.Write(data) })
		vhAssert(!p1, "api-no-panic-escapes-Write")
		p2 := vhCatch(func() { cerr = w.Close() })
		vhAssert(!p2, "api-no-panic-escapes-Close")
		vhAssert(werr != nil || cerr != nil, "api-dead-sink-reported")
	}
	// transient failure: the sink rejects only its first write (which happens inside a block task); the
	// application ignores nothing: Write reports the error, then Close is called
	for _, bs := range []int{512 << 10} {
		sink := &vhFlakySink{failCall: 0}
		w, err := NewWriter(sink, "NONE", "NONE", uint(bs), 2, 0, 0, false)
		vhAssert(err == nil, "api-writer-constructed")
		data := vhData(2*bs, 7)
		var cerr error
		p1 := vhCatch(func() { w.Write(data) })
		vhAssert(!p1, "api-no-panic-escapes-Write")
		p2 := vhCatch(func() { cerr = w.Close() })
		vhAssert(!p2, "api-no-panic-escapes-Close")
		if cerr == nil {
			out, derr := vhDecompress(sink.buf, 1)
			vhAssert(derr == nil && string(out) == string(data), "api-close-success-implies-complete-stream")
		}
	}
}

type vhFlakySink struct {
	buf      []byte
	calls    int
	failCall int
}

func (s *vhFlakySink) Write(p []byte) (int, error) {
	k := s.calls
	s.calls++
	if k == s.failCall {
		return 0, errVhStream
	}
	s.buf = append(s.buf, p...)
	return len(p), nil
}
func (s *vhFlakySink) Close() error { return nil }

type vhDeadSink struct{}

func (s *vhDeadSink) Write(p []byte) (int, error) { return 0, errVhStream }
func (s *vhDeadSink) Close() error                { return nil }

// H08_writer_fault: the shared output bitstream fails (panics like DefaultOutputBitStream does when its flush
// fails) at operation index f, f symbolic. Scenario: Write(data), [Write(more)], Close.
// Oracle: no panic crosses the API; the failure is reported by that call or a later one; Close never returns nil
// unless every block and the end marker reached the stream.
func H08_writer_fault() {
	J := vhParam("jobs", 2)
	nb := vhCase("blocks", 0, vhParam("maxBlocks", 2))
	rem := []int{0, 300}[vhCase("remainder", 0, 1)]
	N := nb*vhB + rem
	data := vhArb("data", N)
	f := vhInt("failAt")
	// the real bitstream only fails when a flush happens, which is impossible while the 9 header fields are
	// written at the very start of the stream (256 KiB buffer): faults start after the header
	vhAssume(f >= vhHeaderOps)
	obs := &vhObs{failAt: f}
	ctx := map[string]any{"transform": "NONE", "entropy": "NONE", "blockSize": uint(vhB), "jobs": uint(J),
		"checksum": uint(0), "fileSize": int64(0)}
	w, err := NewWriterWithCtx2(obs, ctx)
	vhAssert(err == nil, "writer-constructed")
	var werr, cerr error
	p1 := vhCatch(func() { _, werr = w.Write(data) })
	vhAssert(!p1, "no-panic-escapes-Write")
	p2 := vhCatch(func() { cerr = w.Close() })
	vhAssert(!p2, "no-panic-escapes-Close")
	failed := obs.ops > f // the failing operation was reached
	if failed {
		vhReach("fault-hit")
		if werr == nil && cerr == nil {
			// second chance: the property allows "a later call before success is reported"; Close returned nil => success
			vhAssert(false, "fault-swallowed-close-reports-success")
		}
	} else {
		vhAssert(werr == nil && cerr == nil, "healthy-run-succeeds")
	}
	if cerr == nil {
		// success reported: the stream must be complete
		blocks := 0
		for _, e := range obs.evts {
			if e.kind == 2 {
				blocks++
			}
		}
		want := (N + vhB - 1) / vhB
		vhAssert(blocks == want, "success-implies-all-blocks-written")
		ne := len(obs.evts)
		vhAssert(ne >= 2 && obs.evts[ne-1].cnt == 3 && obs.evts[ne-2].cnt == 5, "success-implies-end-marker")
	}
	vhReach("checked")
}

// H08_writer_retry: transient failure: after a failed Write the application goes on (more Write calls, then Close).
// Close must not report success for a stream that misses blocks.
func H08_writer_retry() {
	J := vhParam("jobs", 2)
	f := vhInt("failAt")
	vhAssume(f >= vhHeaderOps)
	obs := &vhObs{failAt: f}
	ctx := map[string]any{"transform": "NONE", "entropy": "NONE", "blockSize": uint(vhB), "jobs": uint(J),
		"checksum": uint(0), "fileSize": int64(0)}
	w, err := NewWriterWithCtx2(obs, ctx)
	vhAssert(err == nil, "writer-constructed")
	nw := vhParam("writes", 3)
	accepted := 0
	anyErr := false
	for i := 0; i < nw; i++ {
		d := vhArb("chunk", J*vhB)
		var n int
		var e error
		p := vhCatch(func() { n, e = w.Write(d) })
		vhAssert(!p, "no-panic-escapes-Write")
		if e != nil {
			anyErr = true
		} else {
			accepted += n
		}
	}
	var cerr error
	p2 := vhCatch(func() { cerr = w.Close() })
	vhAssert(!p2, "no-panic-escapes-Close")
	if cerr == nil {
		blocks := 0
		for _, e := range obs.evts {
			if e.kind == 2 {
				blocks++
			}
		}
		// every byte of every Write that reported success must be in the stream
		vhAssert(blocks*vhB >= accepted, "close-success-implies-accepted-data-written")
		if anyErr {
			vhReach("close-ok-after-reported-error")
		}
	}
	vhReach("checked")
}

// H08_reader_fault: the shared input bitstream fails at operation f (symbolic). Read until EOF/error.
// Oracle: no panic crosses the API; once the fault was hit, some Read returns a non-EOF error and a clean EOF
// is never reported without that error having been returned first.
func H08_reader_fault() {
	J := vhParam("jobs", 2)
	nb := vhCase("blocks", 0, vhParam("maxBlocks", 2))
	N := nb*vhB + 300
	data := vhArb("data", N)
	tape := vhWriteTape(data, 1, 0, 0)
	f := vhInt("failAt")
	vhAssume(f >= 0)
	ibs := &vhIbs{tape: tape, failAt: f}
	r, err := NewReaderWithCtx2(ibs, map[string]any{"jobs": uint(J)})
	vhAssert(err == nil, "reader-constructed")
	buf := make([]byte, vhB)
	sawErr := false
	sawEOF := false
	for calls := 0; calls < nb+4 && !sawEOF && !sawErr; calls++ {
		var n int
		var e error
		p := vhCatch(func() { n, e = r.Read(buf) })
		vhAssert(!p, "no-panic-escapes-Read")
		_ = n
		if e == stdio.EOF {
			sawEOF = true
		} else if e != nil {
			sawErr = true
		}
	}
	if ibs.ops > f {
		vhReach("fault-hit")
		vhAssert(sawErr, "source-failure-reported")
		vhAssert(!sawEOF, "source-failure-not-turned-into-eof")
	} else {
		vhAssert(sawEOF && !sawErr, "healthy-run-reaches-eof")
	}
	vhReach("checked")
}

// H09_truncated: every strict prefix (at operation granularity) of a valid stream makes reading end with an
// error, never with a clean EOF, for streams with and without checksum.
func H09_truncated() {
	J := vhParam("jobs", 2)
	nb := vhCase("blocks", 0, vhParam("maxBlocks", 2))
	rem := []int{0, 300}[vhCase("remainder", 0, 1)]
	N := nb*vhB + rem
	data := vhArb("data", N)
	tape := vhWriteTape(data, 1, uint(vhParam("checksum", 0)), 0)
	cut := vhInt("cut")
	vhAssume(vhAnd(cut >= 0, cut < len(tape)))
	ibs := &vhIbs{tape: tape[:cut], failAt: -1}
	r, err := NewReaderWithCtx2(ibs, map[string]any{"jobs": uint(J)})
	vhAssert(err == nil, "reader-constructed")
	buf := make([]byte, vhB)
	sawErr := false
	sawEOF := false
	for calls := 0; calls < nb+4 && !sawEOF && !sawErr; calls++ {
		var e error
		p := vhCatch(func() { _, e = r.Read(buf) })
		vhAssert(!p, "no-panic-escapes-Read")
		if e == stdio.EOF {
			sawEOF = true
		} else if e != nil {
			sawErr = true
		}
	}
	vhAssert(!sawEOF, "truncated-stream-never-reports-clean-eof")
	vhAssert(sawErr, "truncated-stream-reports-error")
	vhReach("checked")
}
