package io

import (
	"sync"
	"sync/atomic"
	"time"

	"github.com/flanglet/kanzi-go/v2/entropy"
	"github.com/flanglet/kanzi-go/v2/transform"
)

// C07: extraction harnesses. One block task (real encode / decode) is executed in protocol mode: operations on the
// hand-off counter and on the shared stream are visible events, the counter value is NOT known locally (every load
// yields a fresh value). The engine merges the explored paths into a guarded automaton per task and composes N of
// them into a bounded transition system whose schedule is chosen by the solver (engine/proto.go).

func vhB2I(b bool) int {
	if b {
		return 1
	}
	return 0
}

// H07_encode_task: faults: 0 none, 1 failure before the wait (unknown transform type), 2 the shared stream fails
// at its operation failAt (0..3: length-of-length, length, payload, beyond = none).
func H07_encode_task() {
	id := int32(vhParam("id", 1))
	ctr := new(int32)
	vhProtoCounter(ctr)
	obs := &vhObs{failAt: -1, trace: true}
	fault := vhCase("fault", 0, 2)
	tt := transform.NONE_TYPE
	if fault == 1 {
		tt = uint64(40) << 42 // unknown transform token
	}
	if fault == 2 {
		obs.failAt = vhCase("failAt", 0, 2)
	}
	var wg sync.WaitGroup
	wg.Add(1)
	in := blockBuffer{Buf: vhArb("block", 64)}
	out := blockBuffer{Buf: make([]byte, 0)}
	ctx := map[string]any{"transform": "NONE", "entropy": "NONE", "blockSize": uint(vhB), "jobs": uint(1), "bsVersion": uint(6)}
	task := encodingTask{iBuffer: &in, oBuffer: &out, blockLength: 20, blockTransformType: tt,
		blockEntropyType: entropy.NONE_TYPE, currentBlockID: id, processedBlockID: ctr, wg: &wg, obs: obs, ctx: ctx}
	res := encodingTaskResult{}
	task.encode(&res)
	vhEvent("result", vhB2I(res.err != nil), 0)
}

// H07_decode_task: outcomes: 0 ok, 1 skipped (block range), 2 end of stream, 3 failure after the shared read
// (unknown entropy type), 4 the shared stream fails at operation failAt.
func H07_decode_task() {
	id := int32(vhParam("id", 1))
	outcome := vhCase("outcome", 0, 4)
	data := vhArb("block", 20)
	full := vhWriteTape(data, 1, 0, 0) // header (9 ops), block record (3 ops), end marker (2 ops)
	ctr := new(int32)
	vhProtoCounter(ctr) // protocol mode starts here (the tape above was produced by an ordinary Writer)
	var tape []vhEvt
	if outcome == 2 {
		tape = full[vhHeaderOps+3:]
	} else {
		tape = full[vhHeaderOps : vhHeaderOps+3]
	}
	ibs := &vhIbs{tape: tape, failAt: -1, trace: true}
	if outcome == 4 {
		ibs.failAt = vhCase("failAt", 0, 2)
	}
	et := entropy.NONE_TYPE
	if outcome == 3 {
		et = 14 // reserved / unknown entropy type
	}
	ctx := map[string]any{"jobs": uint(1), "blockSize": uint(vhB), "bsVersion": uint(6), "transform": "NONE", "entropy": "NONE"}
	if outcome == 1 {
		ctx["from"] = int(id) + 1
		ctx["to"] = int(id) + 2
	}
	var wg sync.WaitGroup
	wg.Add(1)
	in := blockBuffer{Buf: make([]byte, 0)}
	out := blockBuffer{Buf: make([]byte, 0)}
	task := decodingTask{iBuffer: &in, oBuffer: &out, blockLength: uint(vhB + 512), blockTransformType: transform.NONE_TYPE,
		blockEntropyType: et, currentBlockID: id, processedBlockID: ctr, wg: &wg, ibs: ibs, ctx: ctx}
	res := decodingTaskResult{}
	task.decode(&res)
	// result classes for the BMC obligations: failed (err), end-of-stream (decoded==0, not skipped, no err)
	vhEvent("result", vhB2I(res.err != nil), vhB2I(res.err == nil && res.decoded == 0 && !res.skipped))
}

// H07_lostcancel_api: native-only twin for the decode-side obligation P5 (a failed task leaves the cancel marker).
// Forces the solver's schedule by timing: block 1 carries a bad checksum (it fails AFTER publishing its id), the
// shared read of block 2 is slow, so block 2 publishes its id after block 1 stored the cancel marker. If the cancel
// is lost, the next Read calls decode blocks 3 and 4 and deliver data from beyond the failed block.
func H07_lostcancel_api() {
	data := vhData(4*vhB, 99)
	tape := vhWriteTape(data, 1, 32, 0)
	seen := 0
	slow := 0
	for i := range tape {
		if tape[i].kind == 2 {
			seen++
			if seen == 1 {
				d := tape[i].data
				dataSize := 1 + int((d[0]>>5)&3)
				d[1+dataSize] ^= 1
			}
			if seen == 2 {
				slow = i
			}
		}
	}
	ibs := &vhIbs{tape: tape, failAt: -1, slowAt: slow}
	r, err := NewReaderWithCtx2(ibs, map[string]any{"jobs": uint(2)})
	vhAssert(err == nil, "api-reader-constructed")
	buf := make([]byte, vhB)
	total := 0
	sawErr := false
	for calls := 0; calls < 8; calls++ {
		n, e := r.Read(buf)
		total += n
		if e != nil && e.Error() != "EOF" {
			sawErr = true
		}
	}
	vhAssert(sawErr, "api-damage-reported")
	vhAssert(total == 0, "api-lost-cancel")
}

// H07_encode_lostcancel_api: native-only twin for the encode-side obligations P3/P5. Forces the solver's schedule
// by timing: task 1 is slow inside its critical section (second shared-stream operation sleeps), task 2 fails
// before the wait (unknown transform type) and posts the cancel request, task 1 then finishes; task 3 only starts
// afterwards. The cancel request must survive (counter == -1) and task 3 must terminate.
func H07_encode_lostcancel_api() {
	ctr := new(int32)
	obs := &vhObs{failAt: -1, slowAt: 2}
	var wg sync.WaitGroup
	mk := func(id int32, tt uint64) (*encodingTask, *encodingTaskResult) {
		in := blockBuffer{Buf: vhData(64, uint32(id))}
		out := blockBuffer{Buf: make([]byte, 0)}
		ctx := map[string]any{"transform": "NONE", "entropy": "NONE", "blockSize": uint(vhB), "jobs": uint(1), "bsVersion": uint(6)}
		return &encodingTask{iBuffer: &in, oBuffer: &out, blockLength: 20, blockTransformType: tt,
			blockEntropyType: entropy.NONE_TYPE, currentBlockID: id, processedBlockID: ctr, wg: &wg, obs: obs, ctx: ctx}, &encodingTaskResult{}
	}
	t1, r1 := mk(1, transform.NONE_TYPE)
	t2, r2 := mk(2, uint64(40)<<42)
	t3, r3 := mk(3, transform.NONE_TYPE)
	wg.Add(2)
	go t1.encode(r1)
	time.Sleep(50 * time.Millisecond) // task 1 is now inside its (slow) critical section
	go t2.encode(r2)
	wg.Wait()
	vhAssert(r2.err != nil, "api-task2-failed")
	vhAssert(atomic.LoadInt32(ctr) == _CANCEL_TASKS_ID, "api-encode-lost-cancel")
	wg.Add(1)
	doneCh := make(chan bool, 1)
	go func() { t3.encode(r3); doneCh <- true }()
	select {
	case <-doneCh:
	case <-time.After(2 * time.Second):
		vhAssert(false, "api-encode-lost-cancel")
	}
}
