package io

import stdio "io"

// C17: lifecycle of Writer and Reader against a small reference state machine, over all call sequences of
// length 3 (one vhCase per position) with symbolic contents.

var vhWriteLens = []int{0, 1, vhB, vhB + 476}

// H17_writer: ops per position: 0..3 = Write(vhWriteLens[i] bytes), 4 = Close, 5 = GetWritten.
func H17_writer() {
	J := vhParam("jobs", 2)
	obs := &vhObs{failAt: -1}
	hint := vhI64("sizeHint")
	vhAssume(hint >= 0)
	ctx := map[string]any{"transform": "NONE", "entropy": "NONE", "blockSize": uint(vhB), "jobs": uint(J),
		"checksum": uint(0), "fileSize": hint}
	w, err := NewWriterWithCtx2(obs, ctx)
	vhAssert(err == nil, "writer-constructed")
	closed := false
	lastWritten := uint64(0)
	names := []string{"op0", "op1", "op2"}
	for step := 0; step < 3; step++ {
		op := vhCase(names[step], 0, 5)
		ev0 := len(obs.evts)
		switch {
		case op <= 3:
			p := vhArb("p", vhWriteLens[op])
			n, err := w.Write(p)
			if closed {
				vhAssert(n == 0 && err != nil, "write-after-close-fails")
				vhAssert(len(obs.evts) == ev0, "write-after-close-no-side-effect")
				vhReach("write-after-close")
			} else {
				vhAssert(err == nil, "write-ok")
				vhAssert(n == len(p), "write-returns-full-length")
			}
		case op == 4:
			err := w.Close()
			vhAssert(err == nil, "close-ok")
			if closed {
				vhAssert(len(obs.evts) == ev0, "second-close-emits-nothing")
				vhReach("second-close")
			} else {
				ne := len(obs.evts)
				vhAssert(ne >= 2 && obs.evts[ne-2].kind == 1 && obs.evts[ne-2].cnt == 5 && obs.evts[ne-2].val == 0 &&
					obs.evts[ne-1].kind == 1 && obs.evts[ne-1].cnt == 3 && obs.evts[ne-1].val == 0, "close-writes-end-marker-last")
				vhAssert(obs.closed, "close-closes-bitstream")
			}
			closed = true
		default:
			g := w.GetWritten()
			vhAssert(g == (obs.bits+7)>>3, "getwritten-equals-stream-bytes")
		}
		// ghost observation after every call: the byte counter never goes backwards
		g := w.GetWritten()
		vhAssert(g >= lastWritten, "getwritten-monotone")
		lastWritten = g
	}
	vhReach("checked")
}

// H17_reader: a valid 2-block stream; ops per position: 0 = Read(700), 1 = Read(0 bytes), 2 = Close, 3 = GetRead.
func H17_reader() {
	J := vhParam("jobs", 2)
	N := vhB + 300
	data := vhArb("data", N)
	tape := vhWriteTape(data, 1, 0, 0)
	ibs := &vhIbs{tape: tape, failAt: -1}
	r, err := NewReaderWithCtx2(ibs, map[string]any{"jobs": uint(J)})
	vhAssert(err == nil, "reader-constructed")
	closed := false
	lastRead := uint64(0)
	total := 0
	names := []string{"op0", "op1", "op2"}
	j := vhInt("probe")
	for step := 0; step < 3; step++ {
		op := vhCase(names[step], 0, 3)
		switch op {
		case 0, 1:
			buf := make([]byte, 700*(1-op))
			n, err := r.Read(buf)
			if closed {
				vhAssert(n == 0 && err != nil && err != stdio.EOF, "read-after-close-fails")
				vhReach("read-after-close")
			} else if op == 1 {
				vhAssert(n == 0 && err == nil, "read-zero-length")
			} else if total == N {
				vhAssert(n == 0 && err == stdio.EOF, "read-at-end-is-eof")
				vhReach("eof")
			} else {
				vhAssert(err == nil && n > 0 && n <= 700, "read-ok")
				if vhAnd(j >= total, j < total+n) {
					vhAssert(buf[j-total] == data[j], "read-bytes-correct")
					vhReach("probe-checked")
				}
				total += n
			}
		case 2:
			vhAssert(r.Close() == nil, "close-ok")
			closed = true
		default:
			r.GetRead()
		}
		// ghost observation after every call: the byte counter never goes backwards
		g := r.GetRead()
		vhAssert(g >= lastRead, "getread-monotone")
		lastRead = g
	}
	vhReach("checked")
}
