package io

import stdio "io"

func SC_stream() {
	data := vhBytes("data", 2600)
	obs := &vhObs{failAt: -1}
	ctx := map[string]any{"transform": "NONE", "entropy": "NONE", "blockSize": uint(vhB), "jobs": uint(2),
		"checksum": uint(32), "fileSize": int64(vhU16("hint"))}
	w, err := NewWriterWithCtx2(obs, ctx)
	if err != nil {
		vhOut("ctor-err", 1)
		return
	}
	n1, _ := w.Write(data[:700])
	n2, _ := w.Write(data[700:])
	vhOut("n", uint64(n1+n2))
	w.Close()
	vhOut("written", w.GetWritten())
	h := uint64(9)
	for _, e := range obs.evts {
		h = h*1000003 + uint64(e.kind)*7 + e.val*13 + uint64(e.cnt)
		for _, b := range e.data {
			h = h*31 + uint64(b)
		}
	}
	vhOut("events", uint64(len(obs.evts)))
	vhOut("event-digest", h)
	ibs := &vhIbs{tape: obs.evts, failAt: -1}
	r, _ := NewReaderWithCtx2(ibs, map[string]any{"jobs": uint(3)})
	buf := make([]byte, 333)
	g := uint64(1)
	total := 0
	for i := 0; i < 20; i++ {
		n, err := r.Read(buf)
		for _, b := range buf[:n] {
			g = g*131 + uint64(b)
		}
		total += n
		if err == stdio.EOF {
			vhOut("eof-at-call", uint64(i))
			break
		}
		if err != nil {
			vhOut("read-err", uint64(i))
			break
		}
	}
	vhOut("total", uint64(total))
	vhOut("out-digest", g)
	vhOut("read-bytes", r.GetRead())
}
