package io

import stdio "io"

// C03 (thin): the stream layer is total on arbitrary block records and arbitrary header fields.

// vhFuzzIbs serves a scripted prefix (a valid header) and then ARBITRARY values: every ReadBits returns a fresh
// symbolic value, every ReadArray fills the destination with arbitrary bytes.
type vhFuzzIbs struct {
	tape   []vhEvt // consumed first (may be empty)
	pos    int
	bits   uint64
	closed bool
	budget int // number of arbitrary operations served before the source "ends" (panics like a real stream)
}

func (s *vhFuzzIbs) ReadBit() int { return int(s.ReadBits(1)) }

func (s *vhFuzzIbs) ReadBits(c uint) uint64 {
	if c == 0 || c > 64 {
		panic(errVhStream)
	}
	s.bits += uint64(c)
	if s.pos < len(s.tape) {
		e := s.tape[s.pos]
		s.pos++
		if e.kind == 1 && e.cnt == c {
			if c == 64 {
				return e.val
			}
			return e.val & ((uint64(1) << c) - 1)
		}
	}
	if s.budget <= 0 {
		panic(errVhStream)
	}
	s.budget--
	v := vhU64("fuzzBits")
	if c == 64 {
		return v
	}
	return v & ((uint64(1) << c) - 1)
}

func (s *vhFuzzIbs) ReadArray(bits []byte, c uint) uint {
	if c == 0 {
		return 0
	}
	if s.budget <= 0 {
		panic(errVhStream)
	}
	s.budget--
	n := int((c + 7) >> 3)
	src := vhArb("fuzzArray", n)
	copy(bits[:n], src)
	s.bits += uint64(c)
	return c
}

func (s *vhFuzzIbs) HasMoreToRead() (bool, error) { return !s.closed, nil }
func (s *vhFuzzIbs) Read() uint64                 { return s.bits }
func (s *vhFuzzIbs) Close() error                 { s.closed = true; return nil }

// H03_frame: a valid header followed by an arbitrary block record whose payload has one of a few sizes
// (declared length forced to that size, content arbitrary: arbitrary mode byte, arbitrary stored length, ...).
// Every Read call must return (data | error | EOF) - no panic escapes, no unbounded loop, n within the buffer.
func H03_frame() {
	J := vhParam("jobs", 2)
	hdr := vhWriteTape(vhArb("d", 0), 1, 0, 0)[:vhHeaderOps]
	sizes := []int{1, 2, 3, 5, 20, 40}
	sz := sizes[vhCase("payloadBytes", 0, len(sizes)-1)]
	// script the record head so that the declared payload length is sz bytes; everything after is arbitrary
	lw := uint(3)
	for (uint(1) << lw) <= uint(sz*8) {
		lw++
	}
	tape := append([]vhEvt{}, hdr...)
	tape = append(tape, vhEvt{kind: 1, val: uint64(lw - 3), cnt: 5}, vhEvt{kind: 1, val: uint64(sz * 8), cnt: lw})
	ibs := &vhFuzzIbs{tape: tape, budget: vhParam("budget", 3)}
	r, err := NewReaderWithCtx2(ibs, map[string]any{"jobs": uint(J)})
	vhAssert(err == nil, "reader-constructed")
	buf := make([]byte, vhB)
	for calls := 0; calls < 3; calls++ {
		var n int
		var e error
		p := vhCatch(func() { n, e = r.Read(buf) })
		vhAssert(!p, "no-panic-escapes-Read")
		vhAssert(vhAnd(n >= 0, n <= vhB), "count-within-buffer")
		if e != nil {
			if e == stdio.EOF {
				vhReach("eof")
			} else {
				vhReach("error")
			}
			break
		}
		vhReach("data")
	}
	vhReach("checked")
}

// H03_header: arbitrary header fields (every ReadBits of readHeader returns an arbitrary value, the transform word
// restricted to a list that includes unknown tokens): readHeader returns an error or nil, never panics.
func H03_header() {
	ibs := &vhFuzzIbs{budget: 16}
	tws := []uint64{0, uint64(1) << 42, uint64(45) << 42, uint64(10)<<42 | uint64(63)<<36, ^uint64(0) >> 16}
	tw := tws[vhCase("transformWord", 0, len(tws)-1)]
	// script only the transform field (6th field of a version-6 header); all other fields are arbitrary
	_ = tw
	r, err := NewReaderWithCtx2(&vhHdrIbs{inner: ibs, tw: tw}, map[string]any{"jobs": uint(1)})
	vhAssert(err == nil, "reader-constructed")
	var herr error
	p := vhCatch(func() { herr = r.readHeader() })
	vhAssert(!p, "no-panic-escapes-readHeader")
	if herr == nil {
		vhAssert(vhAnd(r.blockSize >= 1024, r.blockSize <= 1<<30), "accepted-header-has-legal-block-size")
		vhReach("accepted")
	} else {
		vhReach("rejected")
	}
}

// vhHdrIbs returns tw for 48-bit reads (the transform word) and arbitrary values otherwise.
type vhHdrIbs struct {
	inner *vhFuzzIbs
	tw    uint64
}

func (s *vhHdrIbs) ReadBit() int { return s.inner.ReadBit() }
func (s *vhHdrIbs) ReadBits(c uint) uint64 {
	if c == 48 {
		s.inner.bits += 48
		return s.tw
	}
	return s.inner.ReadBits(c)
}
func (s *vhHdrIbs) ReadArray(b []byte, c uint) uint  { return s.inner.ReadArray(b, c) }
func (s *vhHdrIbs) HasMoreToRead() (bool, error)     { return s.inner.HasMoreToRead() }
func (s *vhHdrIbs) Read() uint64                     { return s.inner.Read() }
func (s *vhHdrIbs) Close() error                     { return s.inner.Close() }
