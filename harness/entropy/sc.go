package entropy

func SC_normalize() {
	freqs := make([]int, 256)
	alphabet := make([]int, 256)
	total := 0
	for i := 0; i < 256; i++ {
		f := int(vhU16("f"))
		if f%3 == 0 {
			f = 0
		} else if f%7 == 0 {
			f *= 50
		}
		freqs[i] = f
		total += f
	}
	scale := 1 << (8 + uint(vhU8("lr")%9))
	n, err := NormalizeFrequencies(freqs, alphabet, total, scale)
	vhOut("n", uint64(n))
	if err != nil {
		vhOut("err", 1)
	}
	h := uint64(1)
	s := 0
	for i := 0; i < 256; i++ {
		h = h*1000003 + uint64(freqs[i])*31 + uint64(alphabet[i])
		s += freqs[i]
	}
	vhOut("sum", uint64(s))
	vhOut("digest", h)
}
