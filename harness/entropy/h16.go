package entropy

// C16: NormalizeFrequencies always yields a valid table.

// vhPlacement returns k distinct symbol positions (concrete) for placement class pl.
func vhPlacement(pl, k int) []int {
	pos := make([]int, k)
	for j := 0; j < k; j++ {
		switch pl {
		case 0: // low end, symbol 0 present
			pos[j] = j
		case 1: // high end
			pos[j] = 256 - k + j
		case 2: // spread, symbol 0 absent (idxMax starts on an empty slot)
			pos[j] = 1 + j*(254/k)
		default: // symbol 0 absent, dense from 1
			pos[j] = 1 + j
		}
	}
	return pos
}

// vhCheckTable asserts the C16 oracle on the result of NormalizeFrequencies.
func vhCheckTable(freqs, alphabet []int, present []bool, nPresent int, n int, err error, scale int) {
	vhAssert(err == nil, "no-error")
	vhAssert(n == nPresent, "returns-number-of-present-symbols")
	sum := 0
	ok := true
	for i := 0; i < 256; i++ {
		sum += freqs[i]
		if present[i] {
			ok = vhAnd(ok, freqs[i] >= 1)
		} else {
			ok = vhAnd(ok, freqs[i] == 0)
		}
	}
	vhAssert(ok, "present-kept-absent-zero")
	vhAssert(sum == scale, "sum-equals-scale")
	// alphabet: the present symbols in increasing order
	j := 0
	inc := true
	for i := 0; i < 256; i++ {
		if present[i] {
			inc = vhAnd(inc, alphabet[j] == i)
			j++
		}
	}
	vhAssert(inc, "alphabet-increasing-and-complete")
}

// H16_small: every histogram with k present symbols (enumerated placements), arbitrary counts in [1, 2^27].
func H16_small() {
	k := vhParam("k", 3)
	lr := uint(vhCase("logScale", vhParam("lrLo", 8), vhParam("lrHi", 16)))
	scale := 1 << lr
	pl := vhCase("placement", 0, 3)
	pos := vhPlacement(pl, k)
	freqs := make([]int, 256)
	alphabet := make([]int, 256)
	present := make([]bool, 256)
	total := 0
	if vhParam("pow2total", 1) == 1 {
		// totals that are powers of two: the scaling division is a shift, all counts stay symbolic
		m := uint(vhCase("logTotal", vhParam("ltLo", 9), vhParam("ltHi", 27)))
		total = 1 << m
		rest := total
		for j := 0; j < k; j++ {
			f := rest
			if j < k-1 {
				f = vhInt("f")
				vhAssume(vhAnd(f >= 1, f <= rest-(k-1-j)))
			}
			freqs[pos[j]] = f
			present[pos[j]] = true
			rest -= f
		}
	} else {
		for j := 0; j < k; j++ {
			f := vhInt("f")
			vhAssume(vhAnd(f >= 1, f <= vhParam("maxCount", 1<<27)))
			freqs[pos[j]] = f
			present[pos[j]] = true
			total += f
		}
		vhAssume(total <= 1<<27)
	}
	var n int
	var err error
	panicked := vhCatch(func() { n, err = NormalizeFrequencies(freqs, alphabet, total, scale) })
	vhAssert(!panicked, "no-panic")
	vhCheckTable(freqs, alphabet, present, k, n, err, scale)
	vhReach("checked")
}

// H16_family: histograms with three distinct count values a <= b <= c shared by r1, r2, r3 symbols
// (many rare + few dominant symbols: the shape that stresses the redistribution loop), total = 2^lt, scale = 2^lr.
// Each case of the table below is one (shape, lr, lt) tuple; a, b, c stay symbolic.
var vhFamilies = [][5]int{
	// r1, r2, r3, lr, lt            (quick tier: the first `families` entries)
	{80, 0, 1, 8, 12}, {200, 0, 1, 8, 12}, {85, 0, 3, 8, 12}, {30, 3, 1, 8, 10}, {80, 0, 1, 12, 16}, {255, 0, 1, 8, 9},
	{70, 0, 2, 8, 11}, {-250, 0, 6, 8, 12}, {-250, 1, 1, 8, 15}, {-254, 1, 1, 8, 10}, {250, 0, 6, 8, 12}, {90, 60, 16, 8, 12}, {100, 10, 2, 8, 12}, {120, 20, 4, 8, 12}, {128, 64, 8, 8, 13},
	{150, 50, 2, 8, 12}, {60, 100, 1, 8, 12}, {10, 200, 1, 8, 12}, {40, 40, 40, 8, 12}, {1, 1, 1, 8, 9}, {2, 250, 4, 8, 14},
	{254, 1, 1, 8, 10}, {96, 8, 1, 8, 12}, {180, 30, 10, 8, 12}, {16, 0, 1, 8, 9}, {64, 0, 0, 8, 12}, {0, 0, 256, 8, 12},
	{256, 0, 0, 8, 12}, {80, 0, 1, 16, 20}, {200, 0, 1, 12, 20}, {250, 0, 6, 16, 27}, {80, 0, 1, 9, 27}, {200, 0, 1, 10, 14},
	{250, 0, 6, 11, 15}, {30, 3, 1, 13, 17}, {255, 0, 1, 14, 18}, {85, 0, 3, 15, 19}, {70, 0, 2, 16, 24}, {80, 0, 1, 8, 27},
}

func H16_family() {
	fam := vhFamilies[vhCase("family", vhParam("famLo", 0), vhParam("families", 6)-1)]
	sh := [3]int{fam[0], fam[1], fam[2]}
	scale := 1 << uint(fam[3])
	T := 1 << uint(fam[4])
	a := vhInt("a")
	if sh[0] < 0 {
		// a negative r1 marks a family whose rare symbols all have the CONCRETE count 1 (keeps the per-symbol
		// decisions of 250 rare symbols out of the solver); b and c stay symbolic
		sh[0] = -sh[0]
		a = 1
	}
	b := vhInt("b")
	c := vhInt("c")
	vhAssume(vhAnd(a >= 1, vhAnd(a <= b, b <= c)))
	vhAssume(c <= T)
	freqs := make([]int, 256)
	alphabet := make([]int, 256)
	present := make([]bool, 256)
	total := 0
	idx := 256 - (sh[0] + sh[1] + sh[2])
	np := 0
	for g := 0; g < 3; g++ {
		v := a
		if g == 1 {
			v = b
		} else if g == 2 {
			v = c
		}
		for j := 0; j < sh[g]; j++ {
			freqs[idx] = v
			present[idx] = true
			total += v
			idx++
			np++
		}
	}
	vhAssume(total == T)
	if np > scale {
		return
	}
	var n int
	var err error
	panicked := vhCatch(func() { n, err = NormalizeFrequencies(freqs, alphabet, T, scale) })
	vhAssert(!panicked, "no-panic")
	vhCheckTable(freqs, alphabet, present, np, n, err, scale)
	vhReach("checked")
}
