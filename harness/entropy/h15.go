package entropy

// C15 (entropy side)

var vhEntropyNames = []string{"NONE", "HUFFMAN", "ANS0", "ANS1", "RANGE", "FPAQ", "CM", "TPAQ", "TPAQX"}

func H15_e_case() {
	i := vhCase("name", 0, len(vhEntropyNames)-1)
	canon := vhEntropyNames[i]
	s := vhStrCase("s", canon)
	t, err := GetType(s)
	tc, errc := GetType(canon)
	vhAssert(errc == nil, "canonical-accepted")
	vhAssert(err == nil, "any-case-accepted")
	vhAssert(t == tc, "same-type-as-canonical")
	n, err2 := GetName(t)
	vhAssert(err2 == nil, "type-has-name")
	vhAssert(n == canon, "name-roundtrip-canonical")
	vhReach("checked")
}

func H15_e_unknown() {
	bad := []string{"HUFFMANN", "ANS", "ANS2", "TPAQY", "C", "NONE+", ""}
	i := vhCase("bad", 0, len(bad)-1)
	s := vhStrCase("s", bad[i])
	_, err := GetType(s)
	vhAssert(err != nil, "unknown-name-rejected")
	vhReach("checked")
}

// H15_tpaq: the TPAQ predictor variant built from the raw spelling equals the one built from the canonical name.
func H15_tpaq() {
	names := []string{"TPAQ", "TPAQX"}
	i := vhCase("name", 0, 1)
	raw := vhStrCase("e", names[i])
	t, err := GetType(raw)
	vhAssume(err == nil)
	header, err2 := GetName(t)
	vhAssume(err2 == nil)
	encCtx := map[string]any{"entropy": raw, "blockSize": uint(1 << 20), "size": uint(1 << 20)}
	decCtx := map[string]any{"entropy": header, "blockSize": uint(1 << 20), "size": uint(1 << 20)}
	enc, e1 := NewTPAQPredictor(&encCtx)
	dec, e2 := NewTPAQPredictor(&decCtx)
	vhAssert(e1 == nil && e2 == nil, "constructed")
	vhAssert(enc.extra == dec.extra, "encoder-variant-equals-header-variant")
	vhAssert(len(enc.bigStatesMap) == len(dec.bigStatesMap), "table-sizes-equal")
	vhReach("checked")
}
