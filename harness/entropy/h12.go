package entropy

import (
	"github.com/flanglet/kanzi-go/v2/bitstream"
	"github.com/flanglet/kanzi-go/v2/internal"
)

// C12 (building blocks and boundary paths): round trips over the REAL bitstreams with a symbolic prefix (to
// misalign the cursor) and a trailing 64-bit sentinel that observes bit-exact consumption.

type vhPipe struct {
	bs  *internal.BufferStream
	obs *bitstream.DefaultOutputBitStream
}

func vhNewPipe(prefixBits uint) *vhPipe {
	p := &vhPipe{bs: internal.NewBufferStream()}
	p.obs, _ = bitstream.NewDefaultOutputBitStream(p.bs, 1024)
	if prefixBits > 0 {
		p.obs.WriteBits(vhU64("prefix"), prefixBits)
	}
	return p
}

// finish writes the sentinel, closes the writer and returns a reader positioned after the prefix.
func (p *vhPipe) finish(prefixBits uint, sentinel uint64) *bitstream.DefaultInputBitStream {
	p.obs.WriteBits(sentinel, 64)
	p.obs.Close()
	ibs, _ := bitstream.NewDefaultInputBitStream(p.bs, 1024)
	if prefixBits > 0 {
		ibs.ReadBits(prefixBits)
	}
	return ibs
}

// H12_none: NONE codec, every content of length 0..24 at every bit alignment.
func H12_none() {
	L := vhCase("len", 0, vhParam("maxLen", 24))
	pre := uint(vhCase("prefixBits", 0, 7))
	data := vhBytes("d", L)
	sentinel := vhU64("sentinel")
	p := vhNewPipe(pre)
	enc, _ := NewNullEntropyEncoder(p.obs)
	n, err := enc.Write(data)
	vhAssert(err == nil && n == L, "encode-ok")
	enc.Dispose()
	w := p.obs.Written()
	ibs := p.finish(pre, sentinel)
	dec, _ := NewNullEntropyDecoder(ibs)
	out := make([]byte, L)
	m, err := dec.Read(out)
	vhAssert(err == nil && m == L, "decode-ok")
	dec.Dispose()
	vhAssert(ibs.Read() == w, "decoder-consumed-exactly-what-encoder-wrote")
	vhAssert(ibs.ReadBits(64) == sentinel, "sentinel-intact")
	if L > 0 {
		j := vhInt("probe")
		vhAssume(vhAnd(j >= 0, j < L))
		vhAssert(out[j] == data[j], "content-restored")
	}
	vhReach("checked")
}

// H12_varint: WriteVarInt / ReadVarInt for every uint32.
func H12_varint() {
	pre := uint(vhCase("prefixBits", 0, 7))
	v := vhU32("value")
	sentinel := vhU64("sentinel")
	p := vhNewPipe(pre)
	nb := WriteVarInt(p.obs, v)
	w := p.obs.Written()
	ibs := p.finish(pre, sentinel)
	got := ReadVarInt(ibs)
	vhAssert(got == v, "varint-roundtrip")
	vhAssert(ibs.Read() == w, "varint-consumed-exactly")
	vhAssert(uint64(nb)*8+uint64(pre) == w, "varint-reported-size")
	vhAssert(ibs.ReadBits(64) == sentinel, "sentinel-intact")
	vhReach("checked")
}

// H12_expgolomb: EncodeByte / DecodeByte for every byte, signed and unsigned.
func H12_expgolomb() {
	pre := uint(vhCase("prefixBits", 0, 7))
	signed := vhCase("signed", 0, 1) == 1
	b := vhU8("byte")
	sentinel := vhU64("sentinel")
	p := vhNewPipe(pre)
	enc, _ := NewExpGolombEncoder(p.obs, signed)
	enc.EncodeByte(b)
	w := p.obs.Written()
	ibs := p.finish(pre, sentinel)
	dec, _ := NewExpGolombDecoder(ibs, signed)
	got := dec.DecodeByte()
	vhAssert(got == b, "expgolomb-roundtrip")
	vhAssert(ibs.Read() == w, "expgolomb-consumed-exactly")
	vhAssert(ibs.ReadBits(64) == sentinel, "sentinel-intact")
	vhReach("checked")
}

// H12_alphabet: EncodeAlphabet / DecodeAlphabet for the empty alphabet, the full alphabet and every alphabet of
// one symbol (symbolic) or two symbols {s, 255}.
func H12_alphabet() {
	pre := uint(vhCase("prefixBits", 0, 3))
	kind := vhCase("kind", 0, vhParam("maxKind", 1)) // kinds 2,3 (symbolic symbols) make the decoder scan fork on all 256 presence bits: not registered
	sentinel := vhU64("sentinel")
	var alpha []int
	switch kind {
	case 0:
		alpha = []int{}
	case 1:
		alpha = make([]int, 256)
		for i := range alpha {
			alpha[i] = i
		}
	case 2:
		s := int(vhU8("symbol"))
		alpha = []int{s}
	default:
		s := int(vhU8("symbol"))
		vhAssume(s < 255)
		alpha = []int{s, 255}
	}
	p := vhNewPipe(pre)
	n, err := EncodeAlphabet(p.obs, alpha)
	vhAssert(err == nil && n == len(alpha), "encode-ok")
	w := p.obs.Written()
	ibs := p.finish(pre, sentinel)
	out := make([]int, 256)
	m, err := DecodeAlphabet(ibs, out)
	vhAssert(err == nil && m == len(alpha), "decode-count")
	vhAssert(ibs.Read() == w, "alphabet-consumed-exactly")
	vhAssert(ibs.ReadBits(64) == sentinel, "sentinel-intact")
	for i := 0; i < len(alpha) && i < 2; i++ {
		vhAssert(out[i] == alpha[i], "alphabet-restored")
	}
	if kind == 1 {
		j := vhInt("probe")
		vhAssume(vhAnd(j >= 0, j < 256))
		vhAssert(out[j] == j, "full-alphabet-restored")
	}
	vhReach("checked")
}
